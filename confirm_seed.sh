#!/bin/bash
# usage: ./confirm_seed.sh <ID> <mN>   — confirms a seeded change in the scratch worktree /tmp/wt-<ID>:
# patch applies to clean HEAD, builds, existing tests pass, demo passes on clean and fails on patched.
ID="$1"; M="$2"
WT=/tmp/wt-$ID; OUT=/tmp/out-$ID/$M
export GOFLAGS=-mod=mod GOPROXY=off GOSUMDB=off GOTOOLCHAIN=local
cd $WT || exit 9
git checkout -q -- . && git clean -fdq
CP=$(grep -m1 -E "^\s*(mkdir .*&& *)?cp .*demo" $OUT/README.md | sed 's/^\s*//')
RUN=$(grep -m1 -E "^\s*go (test|run) " $OUT/README.md | sed 's/^\s*//')
[ -z "$CP" ] && { echo "no cp line in README"; exit 8; }
echo "demo: $CP ; $RUN"
eval "$CP" || exit 7
if eval "$RUN" > /tmp/confirm.$ID.$M.clean.log 2>&1; then echo "clean: demo PASS"; else echo "clean: demo FAIL (unexpected)"; tail -5 /tmp/confirm.$ID.$M.clean.log; fi
git apply $OUT/patch.diff || { echo "patch does not apply"; exit 6; }
if go build ./orcas/... ./server/... ./handlers/... ./protocol/... ./metrics/... ./common/... ./timer/... && go build -o /dev/null app/memproxy.go; then echo "patched: build ok"; else echo "patched: BUILD FAILS"; fi
if eval "$RUN" > /tmp/confirm.$ID.$M.patched.log 2>&1; then echo "patched: demo PASS (unexpected)"; else echo "patched: demo FAIL (as required)"; fi
SRC=$(echo "$CP" | sed 's/.*cp //' | awk '{print $1}')
DEMO=$(echo "$CP" | sed 's/.*cp //' | awk '{print $2}')
if [ -d "$DEMO" ]; then rm -f "$DEMO/$(basename $SRC)"; rmdir "$DEMO" 2>/dev/null; else rm -f "$DEMO"; fi
if go test -vet=off -count=1 ./orcas/... ./server/... ./protocol/... ./metrics/... ./timer/... ./handlers/... ./consul/... > /tmp/confirm.$ID.$M.suite.log 2>&1; then echo "patched: existing suite PASS"; else echo "patched: existing suite FAIL"; grep -E "^(FAIL|---)" /tmp/confirm.$ID.$M.suite.log | head; fi
git checkout -q -- . && git clean -fdq
