// Package sched is a token-passing controlled scheduler: logical threads run in their own
// goroutines but only the one chosen by the controller proceeds past a scheduling point. The
// points are places where the Go scheduler could have switched anyway (backend requests, lock
// acquisitions); the controller never splits a critical section. Schedules are enumerated by
// stateless depth-first search (optionally preemption-bounded) or drawn at random.
package sched

import (
	"errors"
	"fmt"
	"hash/fnv"
	"math/rand"
	"sort"
	"sync"
	"time"
)

type frame struct {
	choice int
	alts   int
}

// Explorer enumerates schedules.
type Explorer struct {
	stack     []frame
	Bound     int // preemption bound; < 0 = unbounded
	Rand      *rand.Rand
	MaxRuns   int
	Runs      int
	Exhausted bool
	Prints    map[uint64]struct{}
	MaxDepth  int
	truncated bool
}

// NewDFS returns an explorer doing DFS with the given preemption bound (-1 = none).
func NewDFS(bound, maxRuns int) *Explorer {
	return &Explorer{Bound: bound, MaxRuns: maxRuns, Prints: map[uint64]struct{}{}}
}

// NewRandom returns an explorer drawing maxRuns random schedules.
func NewRandom(seed int64, maxRuns int) *Explorer {
	return &Explorer{Bound: -1, Rand: rand.New(rand.NewSource(seed)), MaxRuns: maxRuns, Prints: map[uint64]struct{}{}}
}

// Chooser makes the choices of one run.
type Chooser struct {
	ex       *Explorer
	depth    int
	preempt  int
	Trace    []string
	hash     uint64
	Overlaps int
}

// Next returns a chooser for the next run, or nil when the exploration is complete.
func (ex *Explorer) Next() *Chooser {
	if ex.MaxRuns > 0 && ex.Runs >= ex.MaxRuns {
		return nil
	}
	if ex.Rand == nil && ex.Runs > 0 {
		// backtrack
		for len(ex.stack) > 0 && ex.stack[len(ex.stack)-1].choice+1 >= ex.stack[len(ex.stack)-1].alts {
			ex.stack = ex.stack[:len(ex.stack)-1]
		}
		if len(ex.stack) == 0 {
			ex.Exhausted = true
			return nil
		}
		ex.stack[len(ex.stack)-1].choice++
	}
	ex.Runs++
	return &Chooser{ex: ex, hash: 14695981039346656037}
}

// Done records the fingerprint of the finished run.
func (c *Chooser) Done() {
	c.ex.Prints[c.hash] = struct{}{}
	if c.depth > c.ex.MaxDepth {
		c.ex.MaxDepth = c.depth
	}
}

// Distinct returns the number of distinct schedule fingerprints executed.
func (ex *Explorer) Distinct() int { return len(ex.Prints) }

// Choose picks one of the enabled threads; last is the thread that ran last (-1 = none).
func (c *Chooser) Choose(enabled []int, last int, labels map[int]string) int {
	alts := make([]int, 0, len(enabled))
	lastEnabled := false
	for _, t := range enabled {
		if t == last {
			lastEnabled = true
		}
	}
	sorted := append([]int(nil), enabled...)
	sort.Ints(sorted)
	if lastEnabled {
		alts = append(alts, last)
	}
	if !(lastEnabled && c.ex.Bound >= 0 && c.preempt >= c.ex.Bound) {
		for _, t := range sorted {
			if t != last {
				alts = append(alts, t)
			}
		}
	}
	var idx int
	if c.ex.Rand != nil {
		idx = c.ex.Rand.Intn(len(alts))
	} else if c.depth < len(c.ex.stack) {
		f := c.ex.stack[c.depth]
		idx = f.choice
		if idx >= len(alts) {
			idx = len(alts) - 1 // nondeterministic replay; keep going
		}
	} else {
		c.ex.stack = append(c.ex.stack, frame{0, len(alts)})
		idx = 0
	}
	c.depth++
	t := alts[idx]
	if lastEnabled && t != last {
		c.preempt++
	}
	step := fmt.Sprintf("%d:%s", t, labels[t])
	c.Trace = append(c.Trace, step)
	h := fnv.New64a()
	h.Write([]byte(step))
	c.hash = (c.hash ^ h.Sum64()) * 1099511628211
	return t
}

// ErrWatchdog reports that a thread neither reached a scheduling point nor finished in time.
var ErrWatchdog = errors.New("sched: watchdog expired (a thread is stuck outside scheduling points)")

// ErrDeadlock reports that unfinished threads exist but none is enabled.
var ErrDeadlock = errors.New("sched: deadlock (threads waiting, none enabled)")

type threadState struct {
	atPoint bool
	done    bool
	label   string
	enabled func() bool
	release chan struct{}
}

// Controller serialises n logical threads.
type Controller struct {
	mu      sync.Mutex
	cond    *sync.Cond
	threads []*threadState
	ch      *Chooser
	last    int
	Steps   int
	aborted bool
}

// NewController creates a controller for n threads.
func NewController(n int, ch *Chooser) *Controller {
	c := &Controller{ch: ch, last: -1}
	c.cond = sync.NewCond(&c.mu)
	for i := 0; i < n; i++ {
		c.threads = append(c.threads, &threadState{})
	}
	return c
}

// Yield blocks thread t at a scheduling point until the controller schedules it. enabled may be
// nil (always enabled) or a predicate evaluated by the controller while all threads are parked.
func (c *Controller) Yield(t int, label string, enabled func() bool) {
	c.mu.Lock()
	if c.aborted {
		c.mu.Unlock()
		return
	}
	ts := c.threads[t]
	ts.atPoint = true
	ts.label = label
	ts.enabled = enabled
	ts.release = make(chan struct{})
	rel := ts.release
	c.cond.Broadcast()
	c.mu.Unlock()
	<-rel
}

// Done marks thread t as finished.
func (c *Controller) Done(t int) {
	c.mu.Lock()
	c.threads[t].done = true
	c.threads[t].atPoint = false
	c.cond.Broadcast()
	c.mu.Unlock()
}

// Run drives the threads until all are done.
func (c *Controller) Run(watchdog time.Duration) error {
	timer := time.AfterFunc(watchdog, func() {
		c.mu.Lock()
		c.cond.Broadcast()
		c.mu.Unlock()
	})
	defer timer.Stop()
	deadline := time.Now().Add(watchdog)
	c.mu.Lock()
	defer c.mu.Unlock()
	for {
		// wait for quiescence: every thread parked at a point or done
		for {
			quiet := true
			for _, ts := range c.threads {
				if !ts.done && !ts.atPoint {
					quiet = false
				}
			}
			if quiet {
				break
			}
			if time.Now().After(deadline) {
				return ErrWatchdog
			}
			c.cond.Wait()
		}
		var enabled []int
		labels := map[int]string{}
		pending := 0
		for i, ts := range c.threads {
			if ts.done {
				continue
			}
			pending++
			if ts.enabled == nil || ts.enabled() {
				enabled = append(enabled, i)
				labels[i] = ts.label
			}
		}
		if pending == 0 {
			return nil
		}
		if len(enabled) == 0 {
			return ErrDeadlock
		}
		t := c.ch.Choose(enabled, c.last, labels)
		c.last = t
		c.Steps++
		ts := c.threads[t]
		ts.atPoint = false
		close(ts.release)
		deadline = time.Now().Add(watchdog)
		timer.Reset(watchdog)
	}
}

// ReleaseAll unblocks every parked thread (used to drain after an aborted run).
func (c *Controller) ReleaseAll() {
	c.mu.Lock()
	c.aborted = true
	for _, ts := range c.threads {
		if ts.atPoint {
			ts.atPoint = false
			close(ts.release)
		}
	}
	c.mu.Unlock()
}
