#!/opt/veriftools/pyvenv/bin/python
import json,jsonschema,glob,sys
ok=True
jsonschema.validate(json.load(open('/verif/MANIFEST.json')), json.load(open('/root/.vp/MANIFEST.schema.json')))
sch=json.load(open('/root/.vp/EVIDENCE.schema.json'))
for f in sorted(glob.glob('/verif/evidence/*.json')):
    try:
        e=json.load(open(f)); jsonschema.validate(e, sch)
        print(f.split('/')[-1], "ok", e['tier'], "viol=%s"%e.get('violations'), "eval=%s"%e['coverage']['evaluations'], "distinct=%s"%e['coverage']['distinct_nontrivial'])
    except Exception as ex:
        ok=False; print(f,"INVALID",str(ex)[:300])
sys.exit(0 if ok else 1)
