module verif

go 1.23

require (
	github.com/anishathalye/porcupine v1.3.0
	github.com/netflix/rend v0.0.0
)

require (
	github.com/armon/go-metrics v0.0.0-20180917152333-f0300d1749da // indirect
	github.com/fatih/color v1.9.0 // indirect
	github.com/hashicorp/consul/api v1.4.0 // indirect
	github.com/hashicorp/go-cleanhttp v0.5.1 // indirect
	github.com/hashicorp/go-hclog v0.12.0 // indirect
	github.com/hashicorp/go-immutable-radix v1.0.0 // indirect
	github.com/hashicorp/go-rootcerts v1.0.2 // indirect
	github.com/hashicorp/golang-lru v0.5.0 // indirect
	github.com/hashicorp/serf v0.8.2 // indirect
	github.com/mattn/go-colorable v0.1.4 // indirect
	github.com/mattn/go-isatty v0.0.12 // indirect
	github.com/mitchellh/mapstructure v1.1.2 // indirect
	golang.org/x/sys v0.0.0-20200124204421-9fbb57f87de9 // indirect
)

replace github.com/netflix/rend => /repo
