#!/usr/bin/env python3
"""Regenerates the seeded-change matrix of DESIGN.md §10.5 (the table between the header row and the 'Totals:' line)
from seeded/*/meta.json."""
import json, glob, os, re
rows = []
def key(d):
    n = os.path.basename(d.rstrip('/'))
    m = re.match(r"(C\d\d)-m(\d+)", n)
    return (m.group(1), int(m.group(2)))
for d in sorted(glob.glob('/verif/seeded/*/'), key=key):
    name = os.path.basename(d.rstrip('/'))
    meta = json.load(open(d + 'meta.json'))
    c = meta.get('confirmed_by_main_session', {})
    idea = (c.get('note') or meta.get('what_it_breaks', ''))[:160].replace('|', '/').replace('\n', ' ')
    rows.append(f"| {name} | {idea} | {c.get('caught_by_quick','').replace('|','/')} |")
s = open('/verif/DESIGN.md').read()
head = "| seed | change | caught by (quick tier) |\n|---|---|---|\n"
a = s.index(head) + len(head)
b = s.index("\nTotals:", a)
s = s[:a] + "\n".join(rows) + "\n" + s[b:]
open('/verif/DESIGN.md', 'w').write(s)
print(len(rows), "rows")
