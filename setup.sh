#!/bin/bash
# Builds the framework offline and warms the Go build cache (incl. the -race standard library).
set -e
cd "$(dirname "$0")"
export GOFLAGS=-mod=mod GOPROXY=off GOSUMDB=off GOTOOLCHAIN=local
T="$(mktemp -d /tmp/verif-setup-XXXXXX)"
trap 'rm -rf "$T"' EXIT
go build -tags verif -o "$T/check" ./cmd/check
go build -race -tags verif -o "$T/check-race" ./cmd/check
(cd /repo && GOFLAGS=-mod=readonly go build -o "$T/memproxy" app/memproxy.go && GOFLAGS=-mod=readonly go build -race -o "$T/memproxy-race" app/memproxy.go)
echo setup ok
