#!/usr/bin/env python3
"""usage: keep_seed.py <ID> <mN> '<checks that caught it (quick)>' ['<note>']
Copies a confirmed seeded change from /tmp/out-<ID>/<mN> to /verif/seeded/<ID>-<mN>/ and records what was run."""
import sys, os, json, shutil
ID, M, caught = sys.argv[1], sys.argv[2], sys.argv[3]
note = sys.argv[4] if len(sys.argv) > 4 else ""
src = f"/tmp/out-{ID}/{M}"
dst = f"/verif/seeded/{ID}-{M}"
os.makedirs(dst, exist_ok=True)
for f in os.listdir(src):
    sp = os.path.join(src, f)
    if os.path.isdir(sp):
        shutil.copytree(sp, os.path.join(dst, f), dirs_exist_ok=True)
    else:
        shutil.copy(sp, dst)
meta = json.load(open(os.path.join(dst, "meta.json")))
meta["property"] = ID
meta["confirmed_by_main_session"] = {
    "scratch_worktree": f"/tmp/wt-{ID} (removed afterwards)",
    "what_was_run": "confirm_seed.sh: git apply patch.diff on clean HEAD; go build of all packages + app/memproxy.go; existing suite (go test -vet=off ./orcas/... ./server/... ./protocol/... ./metrics/... ./timer/... ./handlers/... ./consul/...) passes with the change; demo passes on the clean tree and fails with the change",
    "checks_run_against_it": "seedtest_iso.sh (round 3; rounds 1-2 used seedtest.sh on /repo itself): patch applied to a scratch worktree of /repo HEAD, checks run from a scratch copy of /verif with VERIF_REPO and the go.mod replace pointing at that worktree; ./run.sh <check> quick; worktree removed",
    "caught_by_quick": caught,
    "note": note,
}
json.dump(meta, open(os.path.join(dst, "meta.json"), "w"), indent=1)
print("kept", dst)
