#!/bin/bash
# usage: ./sweep.sh <tier> <seed> [checks...]   — runs checks with evidence redirected, prints one line each
TIER="$1"; SEED="$2"; shift 2
CHECKS="$@"
[ -z "$CHECKS" ] && CHECKS="C01 C02 C03 C04 C05 C06 C07 C08 C09 C10 C11 C12 C13 C14 C15 C16 C17 C18 C19"
for c in $CHECKS; do
  s=$(date +%s)
  out=$(VERIF_SEED=$SEED VERIF_OUT_DIR=/tmp/sweepout-$SEED-$TIER ./run.sh $c $TIER 2>&1); rc=$?
  e=$(date +%s)
  echo "$c seed=$SEED $TIER rc=$rc t=$((e-s))s $(echo "$out" | grep -E "^$c $TIER" | sed 's/.*evaluations/evaluations/') $(echo "$out" | grep -c '^VIOLATION') viol $(echo "$out" | grep -c '^INCONCLUSIVE') inconcl"
  if [ $rc -ne 0 ]; then echo "$out" | grep -E "signature|BROKEN|INCONCL|panic|BUILD" | head -5; fi
done
