#!/usr/bin/env python3
"""usage: regress.py [jobs]  — re-runs, for every kept seeded change, the quick checks that meta.json says catch it
(isolated: seedtest_iso.sh) and reports seeds that no listed check catches any more. Results in /tmp/regress/."""
import json, os, re, subprocess, sys, glob
from concurrent.futures import ThreadPoolExecutor
jobs = int(sys.argv[1]) if len(sys.argv) > 1 else 4
only = sys.argv[2:]  # optional list of seed names
os.makedirs("/tmp/regress", exist_ok=True)
work = []
for d in sorted(glob.glob("/verif/seeded/*/")):
    name = os.path.basename(d.rstrip("/"))
    if only and name not in only:
        continue
    meta = json.load(open(d + "meta.json"))
    caught = meta.get("confirmed_by_main_session", {}).get("caught_by_quick", "")
    if caught.startswith("NOT CAUGHT"):
        continue
    head = caught.split("(")[0] if re.search(r"C\d\d", caught.split("(")[0]) else caught
    checks = re.findall(r"C\d\d", head)
    checks = list(dict.fromkeys(checks))[:2]
    work.append((name, d + "patch.diff", checks))
def run(w):
    name, patch, checks = w
    out = subprocess.run(["/verif/seedtest_iso.sh", patch, "quick"] + checks, capture_output=True, text=True).stdout
    open(f"/tmp/regress/{name}.log", "w").write(out)
    ok = any(re.search(r"rc=1 violations=[1-9]", l) for l in out.splitlines())
    print(("CAUGHT " if ok else "MISSED ") + name + " " + " ".join(checks) + ("" if ok else "  <<<<<<  " + out.replace("\n", " | ")[:300]), flush=True)
    return ok
with ThreadPoolExecutor(jobs) as ex:
    res = list(ex.map(run, work))
print(f"TOTAL {len(res)} caught {sum(res)} missed {len(res)-sum(res)}")
