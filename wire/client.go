package wire

import (
	"bufio"
	"errors"
	"fmt"
	"io"
	"net"
	"time"
)

// TextSentinelLine is rend's reply to the text `noop` command, used as a sentinel.
const TextSentinelLine = "Yep, it works."

// ErrWatchdog is returned when the generous wall-clock watchdog fires while waiting for bytes.
// It is never a verdict by itself.
var ErrWatchdog = errors.New("wire: watchdog expired while waiting for reply")

// Client is one client connection with strict decoding and sentinel-delimited replies.
type Client struct {
	Conn     net.Conn
	R        *bufio.Reader
	Binary   bool
	Watchdog time.Duration
	sentinel uint32
	// Trace, when non-nil, receives every sent command and reduced result.
	Trace func(c Cmd, r Result)
}

// Dial connects to network/addr.
func Dial(network, addr string, binary bool) (*Client, error) {
	var c net.Conn
	var err error
	for i := 0; i < 50; i++ {
		c, err = net.DialTimeout(network, addr, 5*time.Second)
		if err == nil {
			break
		}
		time.Sleep(20 * time.Millisecond)
	}
	if err != nil {
		return nil, err
	}
	return &Client{Conn: c, R: bufio.NewReaderSize(c, 1<<16), Binary: binary, Watchdog: 20 * time.Second, sentinel: 0xF0000000}, nil
}

// Close closes the connection.
func (cl *Client) Close() { cl.Conn.Close() }

// Encode encodes for this client's protocol.
func (cl *Client) Encode(c Cmd) []byte {
	if cl.Binary {
		return EncodeBinary(c)
	}
	return EncodeText(c)
}

func (cl *Client) arm() {
	if cl.Watchdog > 0 {
		cl.Conn.SetReadDeadline(time.Now().Add(cl.Watchdog))
	}
}

func mapErr(err error) error {
	var ne net.Error
	if errors.As(err, &ne) && ne.Timeout() {
		return ErrWatchdog
	}
	return err
}

// Send writes raw bytes.
func (cl *Client) Send(b []byte) error {
	cl.Conn.SetWriteDeadline(time.Now().Add(30 * time.Second))
	_, err := cl.Conn.Write(b)
	return err
}

// Do sends one command followed by a sentinel no-op in a single write and collects everything
// the server sends up to the sentinel's reply. Class "closed" means EOF arrived instead.
func (cl *Client) Do(c Cmd) (Result, error) {
	if c.Op == "quit" {
		return cl.doQuit(c)
	}
	if cl.Binary {
		cl.sentinel++
		if cl.sentinel == 0 {
			cl.sentinel = 0xF0000001
		}
		s := cl.sentinel
		buf := append(EncodeBinary(c), EncodeBinary(Cmd{Op: "noop", Opaque: s})...)
		if err := cl.Send(buf); err != nil {
			return Result{Class: "closed", Info: "write: " + err.Error()}, nil
		}
		var frames []Frame
		for {
			cl.arm()
			f, err := ReadFrame(cl.R)
			if err != nil {
				err = mapErr(err)
				res := InterpretBinary(c, frames)
				if err == io.EOF || isConnErr(err) {
					res.Class = "closed"
					res.Info = fmt.Sprintf("%d frames before close", len(frames))
					return res, nil
				}
				return res, err
			}
			if f.Opaque == s && f.Opcode == opNoop {
				break
			}
			frames = append(frames, f)
		}
		res := InterpretBinary(c, frames)
		if cl.Trace != nil {
			cl.Trace(c, res)
		}
		return res, nil
	}
	buf := append(EncodeText(c), []byte("noop\r\n")...)
	if err := cl.Send(buf); err != nil {
		return Result{Class: "closed", Info: "write: " + err.Error()}, nil
	}
	var items []Item
	for {
		cl.arm()
		it, err := ReadItem(cl.R)
		if err != nil {
			err = mapErr(err)
			res := InterpretText(c, items)
			if err == io.EOF || isConnErr(err) {
				res.Class = "closed"
				res.Info = fmt.Sprintf("%d items before close", len(items))
				return res, nil
			}
			return res, err
		}
		if !it.IsValue && it.Line == TextSentinelLine {
			break
		}
		items = append(items, it)
	}
	res := InterpretText(c, items)
	if cl.Trace != nil {
		cl.Trace(c, res)
	}
	return res, nil
}

func isConnErr(err error) bool {
	if err == nil {
		return false
	}
	if errors.Is(err, ErrWatchdog) || errors.Is(err, ErrMalformed) {
		return false
	}
	var oe *net.OpError
	return errors.As(err, &oe) || errors.Is(err, io.ErrUnexpectedEOF) || errors.Is(err, net.ErrClosed)
}

func (cl *Client) doQuit(c Cmd) (Result, error) {
	if err := cl.Send(cl.Encode(c)); err != nil {
		return Result{Class: "closed"}, nil
	}
	var res Result
	if cl.Binary {
		var frames []Frame
		for {
			cl.arm()
			f, err := ReadFrame(cl.R)
			if err != nil {
				if err != io.EOF && !isConnErr(mapErr(err)) {
					return res, mapErr(err)
				}
				break
			}
			frames = append(frames, f)
		}
		res = InterpretBinary(c, frames)
	} else {
		var items []Item
		for {
			cl.arm()
			it, err := ReadItem(cl.R)
			if err != nil {
				if err != io.EOF && !isConnErr(mapErr(err)) {
					return res, mapErr(err)
				}
				break
			}
			items = append(items, it)
		}
		res = InterpretText(c, items)
	}
	return res, nil
}

// ReadAllFrames reads binary frames until EOF. A malformed tail is returned as error together
// with the frames decoded so far.
func (cl *Client) ReadAllFrames() ([]Frame, error) {
	var frames []Frame
	for {
		cl.arm()
		f, err := ReadFrame(cl.R)
		if err != nil {
			err = mapErr(err)
			if err == io.EOF || isConnErr(err) {
				return frames, nil
			}
			return frames, err
		}
		frames = append(frames, f)
	}
}

// ReadAllItems reads text items until EOF.
func (cl *Client) ReadAllItems() ([]Item, error) {
	var items []Item
	for {
		cl.arm()
		it, err := ReadItem(cl.R)
		if err != nil {
			err = mapErr(err)
			if err == io.EOF || isConnErr(err) {
				return items, nil
			}
			return items, err
		}
		items = append(items, it)
	}
}
