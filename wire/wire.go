// Package wire contains independent client-side encoders and strict decoders for the memcached
// text and binary protocols (the subset rend supports). It does not import rend.
package wire

import (
	"bufio"
	"bytes"
	"encoding/binary"
	"errors"
	"fmt"
	"io"
	"sort"
	"strconv"
	"strings"
)

// Cmd is a structured client intent.
type Cmd struct {
	Op       string   `json:"op"` // set add replace append prepend delete touch get gat gete noop version quit stats raw
	Key      string   `json:"key,omitempty"`
	Keys     []string `json:"keys,omitempty"` // get / gete
	NoopEnd  bool     `json:"noop_end,omitempty"`
	Value    []byte   `json:"value,omitempty"`
	Flags    uint32   `json:"flags,omitempty"`
	TTL      uint32   `json:"ttl,omitempty"`
	Opaque   uint32   `json:"opaque,omitempty"`
	QuietSet bool     `json:"quiet,omitempty"`
	Raw      []byte   `json:"raw,omitempty"`
	// NonQuiet marks every key of a handler-level multi-get as non-quiet (what the text parser produces).
	NonQuiet bool `json:"non_quiet,omitempty"`
	// Port selects main (0) or batch (1) port for shapes that alternate.
	Port int `json:"port,omitempty"`
	// SameOpaque gives every key of a handler-level multi-get the same opaque (what the text
	// parser produces: all zero), so duplicate keys are indistinguishable requests.
	SameOpaque bool `json:"same_opaque,omitempty"`
	// ConsumerPauseMs makes the in-process consumer of a handler-level get pause after the
	// first response it receives (a slow client behind the orchestrator).
	ConsumerPauseMs int `json:"consumer_pause_ms,omitempty"`
}

// Short renders a compact description.
func (c Cmd) Short() string {
	switch c.Op {
	case "get", "gete":
		s := c.Op + " " + strings.Join(c.Keys, " ")
		if c.NoopEnd {
			s += " [noop]"
		}
		return s
	case "set", "add", "replace":
		q := ""
		if c.QuietSet {
			q = "q"
		}
		return fmt.Sprintf("%s%s %s f=%d ttl=%d len=%d", c.Op, q, c.Key, c.Flags, c.TTL, len(c.Value))
	case "append", "prepend":
		return fmt.Sprintf("%s %s len=%d", c.Op, c.Key, len(c.Value))
	case "touch", "gat":
		return fmt.Sprintf("%s %s ttl=%d", c.Op, c.Key, c.TTL)
	case "delete":
		return "delete " + c.Key
	case "raw":
		return fmt.Sprintf("raw(%d bytes)", len(c.Raw))
	}
	return c.Op
}

// IsGet reports whether the command is a (multi-)get.
func (c Cmd) IsGet() bool { return c.Op == "get" || c.Op == "gete" }

// Binary opcodes.
const (
	opGet      = 0x00
	opSet      = 0x01
	opAdd      = 0x02
	opReplace  = 0x03
	opDelete   = 0x04
	opQuit     = 0x07
	opGetQ     = 0x09
	opNoop     = 0x0a
	opVersion  = 0x0b
	opAppend   = 0x0e
	opPrepend  = 0x0f
	opStat     = 0x10
	opSetQ     = 0x11
	opAddQ     = 0x12
	opReplaceQ = 0x13
	opAppendQ  = 0x19
	opPrependQ = 0x1a
	opTouch    = 0x1c
	opGat      = 0x1d
	opGetE     = 0x40
	opGetEQ    = 0x41
)

// BinHeader builds a raw 24-byte request header.
func BinHeader(op byte, keyLen uint16, extLen byte, total uint32, opaque uint32) []byte {
	h := make([]byte, 24)
	h[0] = 0x80
	h[1] = op
	binary.BigEndian.PutUint16(h[2:4], keyLen)
	h[4] = extLen
	binary.BigEndian.PutUint32(h[8:12], total)
	binary.BigEndian.PutUint32(h[12:16], opaque)
	return h
}

func binReq(op byte, extras []byte, key string, value []byte, opaque uint32) []byte {
	b := BinHeader(op, uint16(len(key)), byte(len(extras)), uint32(len(extras)+len(key)+len(value)), opaque)
	b = append(b, extras...)
	b = append(b, key...)
	b = append(b, value...)
	return b
}

func u32(v uint32) []byte {
	b := make([]byte, 4)
	binary.BigEndian.PutUint32(b, v)
	return b
}

// EncodeBinary encodes a command for the binary protocol.
func EncodeBinary(c Cmd) []byte {
	switch c.Op {
	case "set", "add", "replace":
		op := map[string]byte{"set": opSet, "add": opAdd, "replace": opReplace}[c.Op]
		if c.QuietSet {
			op = map[string]byte{"set": opSetQ, "add": opAddQ, "replace": opReplaceQ}[c.Op]
		}
		return binReq(op, append(u32(c.Flags), u32(c.TTL)...), c.Key, c.Value, c.Opaque)
	case "append", "prepend":
		op := map[string]byte{"append": opAppend, "prepend": opPrepend}[c.Op]
		if c.QuietSet {
			op = map[string]byte{"append": opAppendQ, "prepend": opPrependQ}[c.Op]
		}
		return binReq(op, nil, c.Key, c.Value, c.Opaque)
	case "delete":
		return binReq(opDelete, nil, c.Key, nil, c.Opaque)
	case "touch":
		return binReq(opTouch, u32(c.TTL), c.Key, nil, c.Opaque)
	case "gat":
		return binReq(opGat, u32(c.TTL), c.Key, nil, c.Opaque)
	case "get", "gete":
		q, nq := byte(opGetQ), byte(opGet)
		if c.Op == "gete" {
			q, nq = opGetEQ, opGetE
		}
		var b []byte
		for i, k := range c.Keys {
			op := q
			if i == len(c.Keys)-1 && !c.NoopEnd {
				op = nq
			}
			b = append(b, binReq(op, nil, k, nil, c.Opaque+uint32(i))...)
		}
		if c.NoopEnd {
			b = append(b, binReq(opNoop, nil, "", nil, c.Opaque+uint32(len(c.Keys)))...)
		}
		return b
	case "noop":
		return binReq(opNoop, nil, "", nil, c.Opaque)
	case "version":
		return binReq(opVersion, nil, "", nil, c.Opaque)
	case "stats":
		return binReq(opStat, nil, "", nil, c.Opaque)
	case "quit":
		return binReq(opQuit, nil, "", nil, c.Opaque)
	case "raw":
		return c.Raw
	}
	panic("wire: unknown op " + c.Op)
}

// EncodeText encodes a command for the text protocol (gat/gete do not exist there).
func EncodeText(c Cmd) []byte {
	switch c.Op {
	case "set", "add", "replace", "append", "prepend":
		var b bytes.Buffer
		fmt.Fprintf(&b, "%s %s %d %d %d\r\n", c.Op, c.Key, c.Flags, c.TTL, len(c.Value))
		b.Write(c.Value)
		b.WriteString("\r\n")
		return b.Bytes()
	case "delete":
		return []byte("delete " + c.Key + "\r\n")
	case "touch":
		return []byte(fmt.Sprintf("touch %s %d\r\n", c.Key, c.TTL))
	case "get":
		return []byte("get " + strings.Join(c.Keys, " ") + "\r\n")
	case "noop", "version", "stats", "quit":
		return []byte(c.Op + "\r\n")
	case "raw":
		return c.Raw
	}
	panic("wire: op not available in text protocol: " + c.Op)
}

// Frame is a decoded binary response frame.
type Frame struct {
	Opcode byte   `json:"opcode"`
	Status uint16 `json:"status"`
	Opaque uint32 `json:"opaque"`
	Extras []byte `json:"extras,omitempty"`
	Key    []byte `json:"key,omitempty"`
	Value  []byte `json:"value,omitempty"`
}

func (f Frame) String() string {
	return fmt.Sprintf("{op=0x%02x st=0x%02x opq=0x%x ext=%d key=%d val=%d}", f.Opcode, f.Status, f.Opaque, len(f.Extras), len(f.Key), len(f.Value))
}

// ErrMalformed is returned by the strict decoders for frames that are not self-consistent.
var ErrMalformed = errors.New("wire: malformed reply")

// ReadFrame reads exactly one binary response frame, strictly.
func ReadFrame(r *bufio.Reader) (Frame, error) {
	var h [24]byte
	n, err := io.ReadFull(r, h[:])
	if err != nil {
		if n == 0 && err == io.EOF {
			return Frame{}, io.EOF
		}
		if err == io.EOF || err == io.ErrUnexpectedEOF {
			return Frame{}, fmt.Errorf("%w: truncated header (%d of 24 bytes)", ErrMalformed, n)
		}
		return Frame{}, err
	}
	if h[0] != 0x81 {
		return Frame{}, fmt.Errorf("%w: bad response magic 0x%02x", ErrMalformed, h[0])
	}
	f := Frame{Opcode: h[1], Status: binary.BigEndian.Uint16(h[6:8]), Opaque: binary.BigEndian.Uint32(h[12:16])}
	kl := uint32(binary.BigEndian.Uint16(h[2:4]))
	el := uint32(h[4])
	total := binary.BigEndian.Uint32(h[8:12])
	if kl+el > total {
		return f, fmt.Errorf("%w: key %d + extras %d > total body %d", ErrMalformed, kl, el, total)
	}
	if total > 256<<20 {
		return f, fmt.Errorf("%w: absurd total body %d", ErrMalformed, total)
	}
	body := make([]byte, total)
	if n, err := io.ReadFull(r, body); err != nil {
		if err == io.EOF || err == io.ErrUnexpectedEOF {
			return f, fmt.Errorf("%w: truncated body (%d of %d bytes)", ErrMalformed, n, total)
		}
		return f, err
	}
	f.Extras = body[:el]
	f.Key = body[el : el+kl]
	f.Value = body[el+kl:]
	return f, nil
}

// Item is one decoded element of a text reply stream: a VALUE block or a status line.
type Item struct {
	IsValue bool   `json:"is_value,omitempty"`
	Key     string `json:"key,omitempty"`
	Flags   uint32 `json:"flags,omitempty"`
	Data    []byte `json:"data,omitempty"`
	Line    string `json:"line,omitempty"`
	BareLF  bool   `json:"bare_lf,omitempty"` // line contained / ended with LF not preceded by CR
}

func (it Item) String() string {
	if it.IsValue {
		return fmt.Sprintf("VALUE %s %d <%d bytes>", it.Key, it.Flags, len(it.Data))
	}
	return it.Line
}

// ReadItem reads one text reply item, strictly.
func ReadItem(r *bufio.Reader) (Item, error) {
	line, err := r.ReadString('\n')
	if err != nil {
		if err == io.EOF && line == "" {
			return Item{}, io.EOF
		}
		if err == io.EOF {
			return Item{}, fmt.Errorf("%w: unterminated line %q", ErrMalformed, trunc(line))
		}
		return Item{}, err
	}
	it := Item{}
	if !strings.HasSuffix(line, "\r\n") {
		it.BareLF = true
		line = strings.TrimSuffix(line, "\n")
	} else {
		line = strings.TrimSuffix(line, "\r\n")
	}
	if strings.HasPrefix(line, "VALUE ") {
		parts := strings.Split(line, " ")
		if len(parts) != 4 {
			return it, fmt.Errorf("%w: bad VALUE line %q", ErrMalformed, trunc(line))
		}
		fl, err1 := strconv.ParseUint(parts[2], 10, 32)
		n, err2 := strconv.ParseUint(parts[3], 10, 32)
		if err1 != nil || err2 != nil {
			return it, fmt.Errorf("%w: bad VALUE numbers %q", ErrMalformed, trunc(line))
		}
		data := make([]byte, n+2)
		if got, err := io.ReadFull(r, data); err != nil {
			return it, fmt.Errorf("%w: truncated data block (%d of %d)", ErrMalformed, got, n+2)
		}
		if data[n] != '\r' || data[n+1] != '\n' {
			return it, fmt.Errorf("%w: data block of %q not followed by CRLF", ErrMalformed, parts[1])
		}
		it.IsValue = true
		it.Key = parts[1]
		it.Flags = uint32(fl)
		it.Data = data[:n]
		return it, nil
	}
	it.Line = line
	return it, nil
}

func trunc(s string) string {
	if len(s) > 80 {
		return s[:80] + "..."
	}
	return s
}

// Val is one value returned by a read.
type Val struct {
	Key     string `json:"key"`
	Flags   uint32 `json:"flags"`
	Data    []byte `json:"data"`
	Exptime uint32 `json:"exptime,omitempty"`
}

// Result is the protocol-independent reduction of the reply to one command.
type Result struct {
	// Class: ok | notfound | exists | notstored | err:<detail> | none | closed
	Class       string   `json:"class"`
	Values      []Val    `json:"values,omitempty"`
	Misses      int      `json:"misses,omitempty"`      // explicit not-found replies of a get
	Terminators int      `json:"terminators,omitempty"` // END / noop-end / final non-quiet reply
	Replies     int      `json:"replies"`               // frames or items received for this command
	Anomalies   []string `json:"anomalies,omitempty"`   // reply-discipline problems
	Info        string   `json:"info,omitempty"`
}

// SortValues orders values by key then data for multiset comparison.
func (r *Result) SortValues() {
	sort.SliceStable(r.Values, func(i, j int) bool {
		if r.Values[i].Key != r.Values[j].Key {
			return r.Values[i].Key < r.Values[j].Key
		}
		return bytes.Compare(r.Values[i].Data, r.Values[j].Data) < 0
	})
}

func statusClass(st uint16) string {
	switch st {
	case 0:
		return "ok"
	case 1:
		return "notfound"
	case 2:
		return "exists"
	case 5:
		return "notstored"
	}
	return fmt.Sprintf("err:0x%02x", st)
}

// expectedOpcode returns the response opcode(s) acceptable for a command.
func opcodeOK(c Cmd, f Frame) bool {
	// The statement asks for opaque echo and framing, not for opcode echo; opcodes are not judged.
	return true
}

// InterpretBinary reduces the frames received for one command.
func InterpretBinary(c Cmd, frames []Frame) Result {
	res := Result{Replies: len(frames)}
	anom := func(f string, a ...interface{}) { res.Anomalies = append(res.Anomalies, fmt.Sprintf(f, a...)) }
	switch c.Op {
	case "get", "gete":
		n := uint32(len(c.Keys))
		seen := make([]int, n)
		for _, f := range frames {
			idx := f.Opaque - c.Opaque
			if c.NoopEnd && f.Opaque == c.Opaque+n && f.Opcode == opNoop {
				res.Terminators++
				if f.Status != 0 || len(f.Extras)+len(f.Key)+len(f.Value) != 0 {
					anom("noop terminator with status/body %v", f)
				}
				continue
			}
			if idx >= n {
				anom("frame with opaque 0x%x not attributable to %s", f.Opaque, c.Short())
				continue
			}
			seen[idx]++
			quiet := c.NoopEnd || idx != n-1
			if !quiet {
				res.Terminators++
			}
			switch f.Status {
			case 0:
				want := 4
				if c.Op == "gete" {
					want = 8
				}
				if len(f.Extras) != want {
					anom("hit frame for %q with %d extras bytes", c.Keys[idx], len(f.Extras))
					continue
				}
				v := Val{Key: c.Keys[idx], Flags: binary.BigEndian.Uint32(f.Extras[:4]), Data: f.Value}
				if c.Op == "gete" {
					v.Exptime = binary.BigEndian.Uint32(f.Extras[4:8])
				}
				res.Values = append(res.Values, v)
			case 1:
				res.Misses++
				if quiet {
					anom("not-found reply for quiet key %q", c.Keys[idx])
				}
			default:
				res.Class = fmt.Sprintf("err:0x%02x", f.Status)
			}
		}
		for i, k := range seen {
			quiet := c.NoopEnd || uint32(i) != n-1
			if k > 1 {
				anom("%d replies for key index %d (%q)", k, i, c.Keys[i])
			}
			if !quiet && k == 0 && res.Class == "" {
				anom("no reply for non-quiet key %q", c.Keys[i])
			}
		}
		if res.Class == "" {
			res.Class = "ok"
			if res.Terminators != 1 {
				anom("%d terminators for %s", res.Terminators, c.Short())
			}
		}
	case "gat":
		res = oneFrame(c, frames, res)
		if res.Class == "ok" && len(frames) == 1 {
			f := frames[0]
			if len(f.Extras) != 4 {
				res.Anomalies = append(res.Anomalies, fmt.Sprintf("gat hit with %d extras bytes", len(f.Extras)))
			} else {
				res.Values = []Val{{Key: c.Key, Flags: binary.BigEndian.Uint32(f.Extras), Data: f.Value}}
			}
		}
	case "set", "add", "replace", "append", "prepend":
		if c.QuietSet {
			switch len(frames) {
			case 0:
				res.Class = "ok"
			case 1:
				if frames[0].Opaque != c.Opaque {
					anom("reply opaque 0x%x for request opaque 0x%x", frames[0].Opaque, c.Opaque)
				}
				res.Class = statusClass(frames[0].Status)
				if res.Class == "ok" {
					anom("success reply to a quiet %s", c.Op)
				}
			default:
				anom("%d replies to a quiet %s", len(frames), c.Op)
				res.Class = statusClass(frames[0].Status)
			}
		} else {
			res = oneFrame(c, frames, res)
		}
	case "delete", "touch", "noop", "version":
		res = oneFrame(c, frames, res)
		if c.Op == "version" && len(frames) == 1 {
			res.Info = string(frames[0].Value)
		}
	case "stats":
		// a sequence of stat frames closed by an empty one
		res.Class = "ok"
		if len(frames) == 0 {
			res.Class = "none"
		}
		for i, f := range frames {
			if f.Opaque != c.Opaque {
				anom("stat frame %d opaque 0x%x for request opaque 0x%x", i, f.Opaque, c.Opaque)
			}
		}
		if len(frames) > 0 {
			last := frames[len(frames)-1]
			if len(last.Key)+len(last.Value) != 0 {
				anom("stat reply not closed by an empty frame")
			}
		}
	case "quit":
		res = oneFrame(c, frames, res)
	default:
		res.Class = "raw"
	}
	res.SortValues()
	return res
}

func oneFrame(c Cmd, frames []Frame, res Result) Result {
	switch len(frames) {
	case 0:
		res.Class = "none"
		res.Anomalies = append(res.Anomalies, "no reply to "+c.Short())
	default:
		if len(frames) > 1 {
			res.Anomalies = append(res.Anomalies, fmt.Sprintf("%d replies to %s", len(frames), c.Short()))
		}
		f := frames[0]
		if f.Opaque != c.Opaque {
			res.Anomalies = append(res.Anomalies, fmt.Sprintf("reply opaque 0x%x for request opaque 0x%x", f.Opaque, c.Opaque))
		}
		res.Class = statusClass(f.Status)
	}
	return res
}

// InterpretText reduces the items received for one command.
func InterpretText(c Cmd, items []Item) Result {
	res := Result{Replies: len(items)}
	anom := func(f string, a ...interface{}) { res.Anomalies = append(res.Anomalies, fmt.Sprintf(f, a...)) }
	for _, it := range items {
		if it.BareLF && c.Op != "stats" {
			anom("line terminated by bare LF: %q", trunc(it.Line))
		}
	}
	switch c.Op {
	case "get":
		want := map[string]bool{}
		for _, k := range c.Keys {
			want[k] = true
		}
		ended := false
		for _, it := range items {
			if it.IsValue {
				if ended {
					anom("VALUE %q after END", it.Key)
				}
				if !want[it.Key] {
					anom("VALUE for key %q that was not requested", it.Key)
				}
				res.Values = append(res.Values, Val{Key: it.Key, Flags: it.Flags, Data: it.Data})
				continue
			}
			if it.Line == "END" {
				res.Terminators++
				ended = true
				continue
			}
			res.Class = "err:" + it.Line
		}
		if res.Class == "" {
			res.Class = "ok"
			if res.Terminators != 1 {
				anom("%d END terminators for %s", res.Terminators, c.Short())
			}
		}
	case "set", "add", "replace", "append", "prepend", "delete", "touch", "noop", "version", "quit":
		if len(items) == 0 {
			res.Class = "none"
			anom("no reply to %s", c.Short())
			break
		}
		if len(items) > 1 {
			anom("%d replies to %s", len(items), c.Short())
		}
		it := items[0]
		if it.IsValue {
			anom("VALUE block in reply to %s", c.Short())
			res.Class = "err:VALUE"
			break
		}
		switch {
		case it.Line == "STORED" || it.Line == "DELETED" || it.Line == "TOUCHED":
			res.Class = "ok"
		case it.Line == "NOT_FOUND":
			res.Class = "notfound"
		case it.Line == "NOT_STORED":
			res.Class = "notstored"
		case it.Line == "EXISTS":
			res.Class = "exists"
		case c.Op == "noop" || c.Op == "quit":
			res.Class = "ok"
			res.Info = it.Line
		case c.Op == "version" && strings.HasPrefix(it.Line, "VERSION "):
			res.Class = "ok"
			res.Info = it.Line
		default:
			res.Class = "err:" + it.Line
		}
	case "stats":
		res.Class = "ok"
		if len(items) == 0 {
			res.Class = "none"
		}
	default:
		res.Class = "raw"
		for _, it := range items {
			res.Info += it.String() + "|"
		}
	}
	res.SortValues()
	return res
}
