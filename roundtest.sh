#!/bin/bash
# usage: ./roundtest.sh <ID> <mN> <checks...>  — confirm a seed and run checks against it
ID="$1"; M="$2"; shift 2
echo "### $ID $M: $(python3 -c "import json;print(json.load(open('/tmp/out-$ID/$M/meta.json')).get('what_it_breaks','')[:160])" 2>/dev/null)"
./confirm_seed.sh $ID $M 2>&1 | tail -4 | tr '\n' ';'; echo
./seedtest_iso.sh /tmp/out-$ID/$M/patch.diff quick "$@"
