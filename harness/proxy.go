// Package harness starts the real memproxy binary (built from /repo's working tree) as a child
// process in front of fake memcached backends.
package harness

import (
	"bytes"
	"fmt"
	"io"
	"net"
	"net/http"
	"os"
	"os/exec"
	"path/filepath"
	"strconv"
	"strings"
	"sync"
	"syscall"
	"time"

	"verif/fakemc"
	"verif/wire"
)

// RepoDir is the repository under test.
var RepoDir = envOr("VERIF_REPO", "/repo")

func envOr(k, d string) string {
	if v := os.Getenv(k); v != "" {
		return v
	}
	return d
}

// Scratch returns the scratch directory of this run (created by run.sh, removed on exit).
func Scratch() string {
	d := os.Getenv("VERIF_SCRATCH")
	if d == "" {
		var err error
		d, err = os.MkdirTemp("", "verif-")
		if err != nil {
			panic(err)
		}
		os.Setenv("VERIF_SCRATCH", d)
	}
	return d
}

func goEnv() []string {
	env := os.Environ()
	out := env[:0:0]
	for _, e := range env {
		if strings.HasPrefix(e, "GOFLAGS=") {
			continue
		}
		out = append(out, e)
	}
	return append(out, "GOFLAGS=-mod=readonly", "GOPROXY=off", "GOSUMDB=off", "GOTOOLCHAIN=local")
}

var buildMu sync.Mutex
var built = map[string]string{}

// BuildMemproxy builds app/memproxy.go from the current working tree of the repository.
func BuildMemproxy(race bool) (string, error) {
	buildMu.Lock()
	defer buildMu.Unlock()
	name := "memproxy"
	if race {
		name = "memproxy-race"
	}
	if p, ok := built[name]; ok {
		return p, nil
	}
	out := filepath.Join(Scratch(), name)
	args := []string{"build"}
	if race {
		args = append(args, "-race")
	}
	args = append(args, "-o", out, "app/memproxy.go")
	cmd := exec.Command("go", args...)
	cmd.Dir = RepoDir
	cmd.Env = goEnv()
	if b, err := cmd.CombinedOutput(); err != nil {
		return "", fmt.Errorf("building memproxy: %v\n%s", err, b)
	}
	built[name] = out
	return out, nil
}

// BuildApp builds another main file of the repository's app directory (for instance
// memcached_cluster_proxy.go) from the current working tree.
func BuildApp(file string) (string, error) {
	buildMu.Lock()
	defer buildMu.Unlock()
	name := strings.TrimSuffix(file, ".go")
	if p, ok := built[name]; ok {
		return p, nil
	}
	out := filepath.Join(Scratch(), name)
	cmd := exec.Command("go", "build", "-o", out, "app/"+file)
	cmd.Dir = RepoDir
	cmd.Env = goEnv()
	if b, err := cmd.CombinedOutput(); err != nil {
		return "", fmt.Errorf("building %s: %v\n%s", file, err, b)
	}
	built[name] = out
	return out, nil
}

// ProxyCfg selects a deployment shape of memproxy.
type ProxyCfg struct {
	L2          bool   `json:"l2"`
	L1Kind      string `json:"l1"` // std | chunked | batched | inmem
	Locked      bool   `json:"locked"`
	MultiReader bool   `json:"multi_reader"`
	Concurrency int    `json:"concurrency,omitempty"`
	Race        bool   `json:"race,omitempty"`
	UnixMain    bool   `json:"unix_main,omitempty"`
	BatchSize   int    `json:"batch_size,omitempty"`
	BatchDelay  int    `json:"batch_delay_us,omitempty"`
	GetEAbs     bool   `json:"gete_abs,omitempty"`
	// ExtraArgs are appended to memproxy's command line (option combinations).
	ExtraArgs []string `json:"extra_args,omitempty"`
}

// Name renders a short configuration class name.
func (c ProxyCfg) Name() string {
	s := "l1only"
	if c.L2 {
		s = "l1l2"
	}
	k := c.L1Kind
	if k == "" {
		k = "std"
	}
	s += "/" + k
	if c.Locked {
		if c.MultiReader && k != "chunked" {
			s += "/locked-mr"
		} else {
			s += "/locked-sr"
		}
	}
	return s
}

// Proxy is a running memproxy with its fake backends.
type Proxy struct {
	Cfg       ProxyCfg
	Cmd       *exec.Cmd
	Port      int
	BatchPort int
	MainSock  string
	L1, L2    *fakemc.Store
	L1srv     *fakemc.Server
	L2srv     *fakemc.Server
	Dir       string
	StderrLog string
	RaceLog   string
	done      chan struct{}
	exitErr   error
}

var portMu sync.Mutex
var portsHandedOut = map[int]bool{}

// FreePort finds a free TCP port that this process has not handed out before.
func FreePort() int {
	portMu.Lock()
	defer portMu.Unlock()
	for {
		l, err := net.Listen("tcp", ":0")
		if err != nil {
			panic(err)
		}
		port := l.Addr().(*net.TCPAddr).Port
		l.Close()
		if !portsHandedOut[port] {
			portsHandedOut[port] = true
			return port
		}
	}
}

// verifyOwnership makes sure the listener we reached belongs to this child (another process may
// have grabbed the port between FreePort and the child's bind): a probe key written through
// the proxy must arrive in this child's fake backends.
func (p *Proxy) verifyOwnership() error {
	if p.Cfg.L1Kind == "inmem" && !p.Cfg.L2 {
		return nil
	}
	ports := []int{0}
	if p.Cfg.L2 {
		ports = append(ports, 1)
	}
	for _, port := range ports {
		key := fmt.Sprintf("__own_%d_%d_%d", os.Getpid(), p.Port, port)
		cl, err := p.Dial(port, true)
		if err != nil {
			return err
		}
		cl.Watchdog = 10 * time.Second
		res, err := cl.Do(wire.Cmd{Op: "set", Key: key, Value: []byte("x"), Opaque: 1})
		cl.Close()
		if err != nil && p.Alive() {
			// second chance with a generous watchdog on a fresh connection (loaded machine)
			if cl2, derr := p.Dial(port, true); derr == nil {
				cl2.Watchdog = 40 * time.Second
				res, err = cl2.Do(wire.Cmd{Op: "set", Key: key, Value: []byte("x"), Opaque: 2})
				cl2.Close()
			}
		}
		if err != nil || res.Class != "ok" {
			if p.Alive() {
				return &NotServingError{Port: port, Detail: fmt.Sprintf("%v %v", res.Class, err)}
			}
			return fmt.Errorf("ownership probe failed: %v %v", res.Class, err)
		}
		st := p.L1
		if p.Cfg.L2 {
			st = p.L2
		}
		found := false
		for k := range st.SnapshotAll() {
			if strings.HasPrefix(k, key) {
				found = true
			}
		}
		if !found {
			return fmt.Errorf("port %d is served by another process", p.Port)
		}
	}
	if !p.Alive() {
		return fmt.Errorf("memproxy exited right after start-up")
	}
	p.ResetStores()
	return nil
}

// NotServingError: the process is running and accepted the connection, but a plain set on a
// fresh connection right after start-up was not answered with success (twice, the second time
// with a 40 s watchdog).
type NotServingError struct {
	Port   int // 0 main, 1 batch
	Detail string
}

func (e *NotServingError) Error() string {
	return fmt.Sprintf("freshly started memproxy does not answer a set on its %s port: %s", []string{"main", "batch"}[e.Port], e.Detail)
}

var dirSeq int
var dirMu sync.Mutex

func newDir() string {
	dirMu.Lock()
	dirSeq++
	n := dirSeq
	dirMu.Unlock()
	d := filepath.Join(Scratch(), fmt.Sprintf("p%d-%d", os.Getpid(), n))
	os.MkdirAll(d, 0o755)
	return d
}

// StartProxy starts memproxy with the given shape.
func StartProxy(cfg ProxyCfg) (*Proxy, error) {
	bin, err := BuildMemproxy(cfg.Race)
	if err != nil {
		return nil, err
	}
	var lastErr error
	for attempt := 0; attempt < 5; attempt++ {
		p, err := startProxyOnce(bin, cfg)
		if err == nil {
			return p, nil
		}
		lastErr = err
	}
	return nil, lastErr
}

func startProxyOnce(bin string, cfg ProxyCfg) (*Proxy, error) {
	p := &Proxy{Cfg: cfg, Dir: newDir(), done: make(chan struct{})}
	p.L1 = fakemc.NewStore("L1")
	p.L2 = fakemc.NewStore("L2")
	if cfg.GetEAbs {
		p.L2.SetGetEMode(fakemc.GetEAbsolute)
	}
	l1sock := filepath.Join(p.Dir, "l1.sock")
	l2sock := filepath.Join(p.Dir, "l2.sock")
	var err error
	if p.L1srv, err = fakemc.Listen(p.L1, "unix", l1sock); err != nil {
		return nil, err
	}
	if p.L2srv, err = fakemc.Listen(p.L2, "unix", l2sock); err != nil {
		return nil, err
	}
	p.Port = FreePort()
	p.BatchPort = FreePort()
	args := []string{"-p", strconv.Itoa(p.Port), "-bp", strconv.Itoa(p.BatchPort), "--l1-sock", l1sock}
	switch cfg.L1Kind {
	case "chunked":
		args = append(args, "--chunked")
	case "batched":
		args = append(args, "--l1-batched")
		if cfg.BatchSize > 0 {
			args = append(args, "--batch-size", strconv.Itoa(cfg.BatchSize))
		}
		if cfg.BatchDelay > 0 {
			args = append(args, "--batch-delay", strconv.Itoa(cfg.BatchDelay))
		}
	case "inmem":
		args = append(args, "--l1-inmem")
	}
	if cfg.L2 {
		args = append(args, "--l2-enabled", "--l2-sock", l2sock)
	}
	if cfg.Locked {
		args = append(args, "--locked")
		if !cfg.MultiReader {
			args = append(args, "--multi-reader=false")
		}
		if cfg.Concurrency > 0 {
			args = append(args, "--concurrency", strconv.Itoa(cfg.Concurrency))
		}
	}
	if cfg.UnixMain {
		p.MainSock = filepath.Join(p.Dir, "main.sock")
		args = append(args, "--use-domain-socket", "--sock-path", p.MainSock)
	}
	args = append(args, cfg.ExtraArgs...)
	p.StderrLog = filepath.Join(p.Dir, "stderr.log")
	f, err := os.Create(p.StderrLog)
	if err != nil {
		return nil, err
	}
	cmd := exec.Command(bin, args...)
	cmd.Stdout = f
	cmd.Stderr = f
	cmd.Dir = p.Dir
	p.RaceLog = filepath.Join(p.Dir, "race")
	cmd.Env = append(os.Environ(), "GORACE=halt_on_error=0 log_path="+p.RaceLog, "GOTRACEBACK=all")
	cmd.SysProcAttr = &syscall.SysProcAttr{Pdeathsig: syscall.SIGKILL}
	if err := cmd.Start(); err != nil {
		f.Close()
		return nil, err
	}
	f.Close()
	p.Cmd = cmd
	go func() {
		p.exitErr = cmd.Wait()
		close(p.done)
	}()
	// readiness: the main listener accepts
	deadline := time.Now().Add(20 * time.Second)
	for {
		var c net.Conn
		var err error
		if cfg.UnixMain {
			c, err = net.DialTimeout("unix", p.MainSock, time.Second)
		} else {
			c, err = net.DialTimeout("tcp", fmt.Sprintf("127.0.0.1:%d", p.Port), time.Second)
		}
		if err == nil {
			c.Close()
			break
		}
		select {
		case <-p.done:
			p.cleanupBackends()
			return nil, fmt.Errorf("memproxy exited during start-up: %v\n%s", p.exitErr, p.Stderr())
		default:
		}
		if time.Now().After(deadline) {
			p.Stop()
			return nil, fmt.Errorf("memproxy did not start listening\n%s", p.Stderr())
		}
		time.Sleep(10 * time.Millisecond)
	}
	if cfg.L2 {
		for {
			c, err := net.DialTimeout("tcp", fmt.Sprintf("127.0.0.1:%d", p.BatchPort), time.Second)
			if err == nil {
				c.Close()
				break
			}
			if time.Now().After(deadline) || !p.Alive() {
				p.Stop()
				return nil, fmt.Errorf("memproxy batch port did not start listening\n%s", p.Stderr())
			}
			time.Sleep(10 * time.Millisecond)
		}
	}
	// the probing connections above opened (and closed) backend connections: wait for them to go
	if err := p.verifyOwnership(); err != nil {
		p.Stop()
		return nil, err
	}
	p.WaitBackendConns(p.IdleL1Conns(), 0, 5*time.Second)
	return p, nil
}

// WaitBackendConns polls until the open-connection counts equal the given values.
func (p *Proxy) WaitBackendConns(l1, l2 int, max time.Duration) bool {
	deadline := time.Now().Add(max)
	for {
		if (l1 < 0 || p.L1.OpenConns() == l1) && (l2 < 0 || p.L2.OpenConns() == l2) {
			return true
		}
		if time.Now().After(deadline) {
			return false
		}
		time.Sleep(2 * time.Millisecond)
	}
}

// Alive reports whether the child process is still running.
func (p *Proxy) Alive() bool {
	select {
	case <-p.done:
		return false
	default:
		return true
	}
}

// ExitErr returns the exit status once the process has ended.
func (p *Proxy) ExitErr() error { return p.exitErr }

// Stderr returns the captured output of the child.
func (p *Proxy) Stderr() string {
	b, _ := os.ReadFile(p.StderrLog)
	if len(b) > 1<<20 {
		b = b[len(b)-(1<<20):]
	}
	return string(b)
}

// Dial opens a client connection to the main (port 0) or batch (port 1) listener.
func (p *Proxy) Dial(port int, binary bool) (*wire.Client, error) {
	if port == 1 {
		if !p.Cfg.L2 {
			return nil, fmt.Errorf("no batch port without L2")
		}
		return wire.Dial("tcp", fmt.Sprintf("127.0.0.1:%d", p.BatchPort), binary)
	}
	if p.Cfg.UnixMain {
		return wire.Dial("unix", p.MainSock, binary)
	}
	return wire.Dial("tcp", fmt.Sprintf("127.0.0.1:%d", p.Port), binary)
}

// IdleL1Conns is the number of L1 backend connections open when no client is connected.
func (p *Proxy) IdleL1Conns() int {
	if p.Cfg.L1Kind == "batched" {
		return -1 // the pool keeps its connections
	}
	return 0
}

// ResetStores clears both fake backends and restarts their shared virtual clock.
func (p *Proxy) ResetStores() {
	t0 := uint32(time.Now().Unix())
	p.L1.ResetAt(t0)
	p.L2.ResetAt(t0)
}

// Advance moves the shared virtual clock of both backends.
func (p *Proxy) Advance(d uint32) {
	p.L1.Advance(d)
	p.L2.Advance(d)
}

func (p *Proxy) cleanupBackends() {
	if p.L1srv != nil {
		p.L1srv.Close()
	}
	if p.L2srv != nil {
		p.L2srv.Close()
	}
}

// Stop kills the child and removes its directory.
func (p *Proxy) Stop() {
	if p.Cmd != nil && p.Alive() {
		p.Cmd.Process.Kill()
		<-p.done
	}
	p.cleanupBackends()
	os.RemoveAll(p.Dir)
}

// StopKeep kills the child but keeps its directory (race logs are read afterwards).
func (p *Proxy) StopKeep() {
	if p.Cmd != nil && p.Alive() {
		p.Cmd.Process.Signal(syscall.SIGTERM)
		select {
		case <-p.done:
		case <-time.After(3 * time.Second):
			p.Cmd.Process.Kill()
			<-p.done
		}
	}
	p.cleanupBackends()
}

// GoroutineDumpKill sends SIGQUIT, which makes the Go runtime print all goroutine stacks to
// the captured stderr and exit. The process is gone afterwards.
func (p *Proxy) GoroutineDumpKill() string {
	if !p.Alive() {
		return p.Stderr()
	}
	before := len(p.Stderr())
	p.Cmd.Process.Signal(syscall.SIGQUIT)
	select {
	case <-p.done:
	case <-time.After(10 * time.Second):
		p.Cmd.Process.Kill()
		<-p.done
	}
	s := p.Stderr()
	if before < len(s) {
		return s[before:]
	}
	return s
}

// OwnsDebugPort reports whether localhost:11299 (memproxy's fixed pprof/metrics port) is served
// by this child (its command line contains our unique port).
func (p *Proxy) OwnsDebugPort() bool {
	cl := http.Client{Timeout: 3 * time.Second}
	resp, err := cl.Get("http://localhost:11299/debug/pprof/cmdline")
	if err != nil {
		return false
	}
	defer resp.Body.Close()
	b, _ := io.ReadAll(resp.Body)
	return bytes.Contains(b, []byte(strconv.Itoa(p.Port))) && bytes.Contains(b, []byte(p.Dir))
}

// DebugGet fetches a path from the debug port (only meaningful if OwnsDebugPort).
func (p *Proxy) DebugGet(path string) (string, error) {
	cl := http.Client{Timeout: 10 * time.Second}
	resp, err := cl.Get("http://localhost:11299" + path)
	if err != nil {
		return "", err
	}
	defer resp.Body.Close()
	b, err := io.ReadAll(resp.Body)
	return string(b), err
}

// RaceReports returns the contents of all race-detector log files of this child.
func (p *Proxy) RaceReports() string {
	files, _ := filepath.Glob(p.RaceLog + ".*")
	var sb strings.Builder
	for _, f := range files {
		b, _ := os.ReadFile(f)
		sb.Write(b)
	}
	return sb.String()
}
