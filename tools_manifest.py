#!/usr/bin/env python3
"""Regenerates MANIFEST.json from the table below (kept as code so that it stays valid)."""
import json, subprocess, os

CHECKS = {
 "C01": ("exploration", "differential reference-model monitor over real memproxy", "§3 C01",
         "Every reply of the real memproxy binary (built from the working tree) to seeded closed-loop command sequences is compared with a reference single map; held on the sequences/configurations counted in the evidence, nothing more. Shapes: every orchestrator x {plain, chunking, batching, in-process} L1 as deployed by memproxy; a server that starts, accepts and does not answer is a violation.",
         "fakemc implements memcached semantics; one client at a time; no faults"),
 "C02": ("exploration", "differential monitor + store-inclusion invariant probe with seeded L1 evictions", "§3 C02",
         "Replies are compared with a tier-agnostic reference map while L1 entries are discarded between commands, and after every command the two fake backends are compared (L1 subset of L2, equal value and flags); chunking-L1 shapes are judged on replies only.",
         "evictions only between commands; TTL 0"),
 "C08": ("exploration", "strict wire decoders over whole reply streams with opaque/order attribution", "§3 C08",
         "The complete reply stream of pipelined connections is decoded strictly; every frame/line is attributed to a request, shape compared with the model, sentinel detects surplus or missing output; single requests are awaited without further input; every kind of request is also sent as the FIRST request of a connection (protocol detection).",
         "reply order across opaques not required; opcode echo not required"),
 "C04": ("exploration", "differential reference-model monitor + backend request-log monitor on chunked.Handler", "§3 C04",
         "chunked.Handler runs against the fake backend for a dense grid of value/key lengths and random command sequences; results are compared with the reference map and every backend request is checked to be derived from the client key, unshared, and gone after delete.",
         "no concurrency, loss or faults here (C05, C10); orphan chunks beyond the current count are counted, not judged"),
 "C05": ("fault_enumeration", "exhaustive entry-loss enumeration + controlled-scheduler interleaving of real handlers, membership oracle", "§3 C05",
         "Every subset of a value's backend entries is removed (exhaustive up to n chunks) and every interleaving at backend-request granularity of two sets and a reader is executed on the real handler (DFS, complete for small programs); each read must be a miss or a fully written value; append/prepend over every loss subset; a monitor over the write identities of thousands of sets constructs the torn interleaving if an identity ever repeats.",
         "loss = disappearance of whole entries; each backend request is atomic; scheduling points are backend requests only"),
 "C06": ("exploration", "differential monitor batched vs direct handler + per-caller exact models under the race detector", "§3 C06",
         "The same commands go through the batching pool and a direct connection on identical fake stores and must agree (and agree with the model); concurrent callers with private keys each check an exact model; option grid incl. pool growth through the hook; values larger than the socket buffers; cold starts (callers constructing their handler for a pool-less socket at the same moment).",
         "no connection loss (C13); batching compositions are those the OS scheduler produced, reported as observed burst sizes"),
 "C07": ("exploration", "intent round-trip monitor on the real parsers with consumed-byte accounting over segmenting readers", "§3 C07",
         "Well-formed pipelines are parsed by rend's parsers from a reader cut at every offset / bytewise / field boundaries; decoded structs are compared with the intent and consumed bytes with encoded lengths; protocol choice observed on memproxy.",
         "well-formed input only (C11 covers malformed); default bufio size"),
 "C11": ("exploration", "parser monitors (panic, allocation bound, read count) over grid/mutation/fuzz inputs + server-level liveness probes", "§3 C11",
         "Arbitrary bytes are fed to the real parsers under panic/allocation/read-count monitors (exhaustive header grid, mutations, native coverage-guided fuzzing) and to the real memproxy, which must reply or close, stay alive and not wait for a bogus length (state read from goroutine dumps while the client stays connected); goroutine-stack growth is bounded like heap allocation.",
         "allocation measured as Go heap allocation with a 4 MiB constant; inputs consistently declaring > 1 MiB skipped"),
 "C16": ("exploration", "pure observation of the backend request log against the slab arithmetic of the statement", "§3 C16",
         "For every key length 1..250 and value lengths at every chunk boundary the chunk writes seen by the fake backend must have one value length per key length, fit the 1184-byte slab, number ceil(len/payload), share the metadata's token; metadata is 40 bytes; also over entries another writer laid out, and at deployment level (memproxy --chunked with other L1 options, the constructor called while the backend comes up).",
         "67-byte overhead and 1184-byte slab are the statement's constants"),
 "C17": ("exploration", "sequential differential monitor + race detector / crash monitor on concurrent goroutines", "§3 C17",
         "inmem.New() is compared with the reference map over random sequences and certain-by-construction expiry scenarios; 2..32 goroutines share the singleton under the race detector with per-goroutine exact models, exit status and stderr as liveness monitors; the backend's first constructions happen concurrently in a fresh process; other connections are closed between commands.",
         "relative TTLs only; expiry checks stay >= 1 s away from the second boundary"),
 "C18": ("exploration", "read-back of the real /metrics endpoint against exact sums/multisets + hook sweeps of bucket index and bit count, race detector", "§3 C18",
         "Counters after concurrent increments must equal exact sums; histogram count/min/max/percentile membership over consecutive periods and with a concurrent scraper; bucket index monotone with bound >= value on boundary/random sweeps; assembly and portable bit count both against math/bits; burst-opened periods, overlapping scrapes, concurrent registration, gauges registered next to counters.",
         "sampling mode unused by registered histograms; periods kept below the 32768-slot ring"),
 "C19": ("exploration", "metamorphic monitor (permutation / removal / balance) on the real ring with boundary probes and collision search, end-to-end node logs", "§3 C19",
         "The real Continuum routes random keys and every ring point +-1 identically for all permutations, re-routes only the removed node's keys, gives every node a share; label sets with colliding ring points are searched; set/get through two handlers must reach the same fake TCP node; the cluster proxy binary over two listings of 12 nodes; Consul discovery in shuffled orders; a handle constructed while a node is down.",
         "weights are constant 1 in the code; ring points are recomputed only to place probes"),
 "C03": ("exploration", "controlled-scheduler exploration of the real locked orchestrators + porcupine linearizability checking; free-running stress histories", "§3 C03",
         "Real LockedOrca/L1L2/L1L2Batch code runs over real std handlers and fake backends with lock acquisitions and backend requests as scheduling points (lockers replaced through the verif hook); all schedules of small programs are enumerated, each history checked with porcupine and the final stores for L1 subset of L2; client-side histories of the real memproxy --locked under stress are checked too, and rounds in which the first commands ever to use a lock stripe arrive together (L1 = L2 afterwards, race detector on).",
         "exhaustive only over our scheduling points; backend requests atomic; stress shows only the OS's schedules"),
 "C09": ("exploration", "per-command deadline probe on every fake tier entry against the reference model on a shared virtual clock + virtual-time read-back", "§3 C09",
         "After every command of seeded sequences the deadline of every live entry of the key in every fake tier (metadata and chunks for chunked L1) must equal the model's; then the virtual clock is moved around every deadline and reads must hit/miss like the model; both gete conventions.",
         "TTL classes >= 1000 s apart; tolerance = real elapsed + 2 s only where rend derives absolute times from its own clock"),
 "C10": ("fault_enumeration", "single-fault enumeration at the fake backends with strict client decoding, state-based hang verdict and possible-state model", "§3 C10",
         "For each short program every (tier, backend request index, fault kind) is injected once; the client stream must be well-formed and end in a reply or a close, the process and a bystander connection must be unaffected, hangs are decided from goroutine dumps with idle backends, verification reads are judged by a possible-state model; the faulted request itself must be answered (not only the sentinel behind it); the batching pool as L1 gets status faults.",
         "single faults; not-found/not-stored statuses are made truthful by evicting the entry; 'key exists' is not injected"),
 "C12": ("fault_enumeration", "instrumented lockers (holder table) + panic/error injection at every call of handlers and responder under the real server loop", "§3 C12",
         "The real server.Loop runs over orcas.Locked with recording lockers installed through the hook; a dry run counts the calls a command makes, then panic / I/O error / application error is injected at every call; holder table empty, <= 1 lock per connection, probe on the same key completes, panic closes the connection; plus opposite-order multi-gets and vanishing clients.",
         "panics injected on the loop goroutine; connection = loop goroutine"),
 "C13": ("fault_enumeration", "planned connection cuts at the fake backend + per-caller possible-state models + bounded-progress checks under the race detector", "§3 C13",
         "Pooled connections are cut idle / before / after / inside the reply of the j-th request of a burst, repeatedly and with a listener outage; every call must return one outcome consistent with the caller's possible states (errors only with a cut in flight), multi-gets complete or error, process alive, exact service after the pool is whole again.",
         "which side of the swap a write lands on is up to the OS scheduler; retried writes may apply twice"),
 "C14": ("exploration", "Go race detector on memproxy and on the batching pool under loss + per-connection reference models on private keys", "§3 C14",
         "memproxy -race serves up to 64 concurrent connections on private keys with an error-reply-heavy mix while /metrics is scraped; each connection's replies are compared with its own model and every race report with a rend frame is a violation; the pool's recovery path is driven by C13's workload under -race.",
         "absence of a report is not absence of a race; detection is probabilistic per run, workloads are shaped for the known-hard pooled-object pattern"),
 "C15": ("fault_enumeration", "prefix enumeration of client streams with backend connection accounting, fresh-client probes and goroutine dumps", "§3 C15",
         "For every prefix length of representative request streams a client connects, sends the prefix and disappears (close / half-close / reset); the fake backends' open-connection counts must return to baseline, a fresh client must be served on the same keys, and the final goroutine dump must contain no goroutine serving a connection; also after the backend refused part of a write, and Close() of the cluster handle must end one connection per node.",
         "'closed' = the fake backend saw EOF/reset; prefixes beyond 160 bytes are sampled"),
}
NOT_YET = {}

def main():
    here = os.path.dirname(os.path.abspath(__file__))
    props = [json.loads(l)["id"] for l in open(os.path.join(here, "properties.jsonl"))]
    repo_commits = subprocess.run(["git","-C","/repo","log","--format=%H %s"],capture_output=True,text=True).stdout.splitlines()
    hooks = [l.split()[0] for l in repo_commits if " verif hook:" in l]
    m = {
      "version": 1,
      "setup_cmd": "./setup.sh",
      "hooks": {"guard": "verif", "enable": "go build -tags verif (harness module /verif with replace github.com/netflix/rend => /repo)",
                "baseline_off_cmd": "cd /repo && GOFLAGS=-mod=mod GOPROXY=off GOSUMDB=off go test -json -vet=off -count=1 -timeout 25m ./...",
                "source_commits": hooks, "add_only": True},
      "engines": [{"name": "check", "path": "cmd/check", "serves_properties": sorted(CHECKS), "kind_free_text": "Go driver: runs real rend code (memproxy child process or library calls) under seeded hostile workloads; monitors = reference model, strict wire decoders, fake-backend probes, race detector, instrumented lockers, porcupine"}],
      "checks": [], "not_applicable": [],
      "notes": "Runtime monitoring only. Verdicts: exit 0 held on what was observed, exit 1 + VIOLATION line, exit 2 broken check (observed too little), exit 3 build failure. See DESIGN.md.",
    }
    for pid in props:
        if pid in CHECKS:
            lvl, tech, ref, text, note = CHECKS[pid]
            m["checks"].append({"property_id": pid, "quick_cmd": f"./run.sh {pid} quick", "thorough_cmd": f"./run.sh {pid} thorough",
              "evidence_file": f"/verif/evidence/{pid}.json", "replay_cmd_template": f"./run.sh {pid} quick --replay {{path}}",
              "engine": "check", "level_claimed": {"category": lvl, "text": text, "design_ref": ref}, "level_note": note, "technique": tech})
        else:
            m["not_applicable"].append({"property_id": pid, "reason": NOT_YET.get(pid, "monitor not built yet in this session (planned in DESIGN.md); not claimed until its check exists and is silent on the unchanged tree")})
    json.dump(m, open(os.path.join(here, "MANIFEST.json"), "w"), indent=1)
    print("checks:", len(m["checks"]), "not_applicable:", len(m["not_applicable"]))

main()
