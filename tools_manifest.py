#!/usr/bin/env python3
"""Regenerates MANIFEST.json from the table below (kept as code so that it stays valid)."""
import json, subprocess, os

CHECKS = {
 "C01": ("exploration", "differential reference-model monitor over real memproxy", "§3 C01",
         "Every reply of the real memproxy binary (built from the working tree) to seeded closed-loop command sequences is compared with a reference single map; held on the sequences/configurations counted in the evidence, nothing more.",
         "fakemc implements memcached semantics; one client at a time; no faults"),
 "C02": ("exploration", "differential monitor + store-inclusion invariant probe with seeded L1 evictions", "§3 C02",
         "Replies are compared with a tier-agnostic reference map while L1 entries are discarded between commands, and after every command the two fake backends are compared (L1 subset of L2, equal value and flags).",
         "evictions only between commands; TTL 0"),
 "C08": ("exploration", "strict wire decoders over whole reply streams with opaque/order attribution", "§3 C08",
         "The complete reply stream of pipelined connections is decoded strictly; every frame/line is attributed to a request, shape compared with the model, sentinel detects surplus or missing output; single requests are awaited without further input.",
         "reply order across opaques not required; opcode echo not required"),
}
NOT_YET = {}

def main():
    here = os.path.dirname(os.path.abspath(__file__))
    props = [json.loads(l)["id"] for l in open(os.path.join(here, "properties.jsonl"))]
    repo_commits = subprocess.run(["git","-C","/repo","log","--format=%H %s"],capture_output=True,text=True).stdout.splitlines()
    hooks = [l.split()[0] for l in repo_commits if " verif hook:" in l]
    m = {
      "version": 1,
      "setup_cmd": "./setup.sh",
      "hooks": {"guard": "verif", "enable": "go build -tags verif (harness module /verif with replace github.com/netflix/rend => /repo)",
                "baseline_off_cmd": "cd /repo && GOFLAGS=-mod=mod GOPROXY=off GOSUMDB=off go test -json -vet=off -count=1 -timeout 25m ./...",
                "source_commits": hooks, "add_only": True},
      "engines": [{"name": "check", "path": "cmd/check", "serves_properties": sorted(CHECKS), "kind_free_text": "Go driver: runs real rend code (memproxy child process or library calls) under seeded hostile workloads; monitors = reference model, strict wire decoders, fake-backend probes, race detector, instrumented lockers, porcupine"}],
      "checks": [], "not_applicable": [],
      "notes": "Runtime monitoring only. Verdicts: exit 0 held on what was observed, exit 1 + VIOLATION line, exit 2 broken check (observed too little), exit 3 build failure. See DESIGN.md.",
    }
    for pid in props:
        if pid in CHECKS:
            lvl, tech, ref, text, note = CHECKS[pid]
            m["checks"].append({"property_id": pid, "quick_cmd": f"./run.sh {pid} quick", "thorough_cmd": f"./run.sh {pid} thorough",
              "evidence_file": f"/verif/evidence/{pid}.json", "replay_cmd_template": f"./run.sh {pid} quick --replay {{path}}",
              "engine": "check", "level_claimed": {"category": lvl, "text": text, "design_ref": ref}, "level_note": note, "technique": tech})
        else:
            m["not_applicable"].append({"property_id": pid, "reason": NOT_YET.get(pid, "monitor not built yet in this session (planned in DESIGN.md); not claimed until its check exists and is silent on the unchanged tree")})
    json.dump(m, open(os.path.join(here, "MANIFEST.json"), "w"), indent=1)
    print("checks:", len(m["checks"]), "not_applicable:", len(m["not_applicable"]))

main()
