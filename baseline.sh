#!/bin/bash
# Runs the repository's baseline suite with the verif guard OFF and compares with BASELINE.json.
export GOPROXY=off GOSUMDB=off GOTOOLCHAIN=local GOFLAGS=-mod=mod
OUT=$(mktemp /tmp/baseline-XXXXXX.json)
(cd /repo && go test -json -vet=off -count=1 -timeout 25m ./... > "$OUT" 2>/dev/null)
python3 - "$OUT" <<'PY'
import json,sys
passed=set(); failed=set()
for l in open(sys.argv[1]):
    try: e=json.loads(l)
    except: continue
    if e.get('Test') and e.get('Action') in ('pass','fail'):
        k=e['Package']+'::'+e['Test']
        (passed if e['Action']=='pass' else failed).add(k)
base=set(json.load(open('/root/.vp/BASELINE.json'))['stable_pass'])
missing=sorted(base-passed)
print("baseline tests:",len(base),"passed now:",len(base&passed),"missing/failed:",len(missing))
for m in missing[:20]: print("  MISSING",m)
sys.exit(1 if missing else 0)
PY
rc=$?
rm -f "$OUT"
exit $rc
