// Package model is the reference single memcached-style map used by the differential monitors.
package model

import "sort"

const thirtyDays = 60 * 60 * 24 * 30

// Outcome classes.
const (
	OK        = "ok"
	NotFound  = "notfound"
	Exists    = "exists"
	NotStored = "notstored"
)

// Item is one stored value.
type Item struct {
	Value    []byte
	Flags    uint32
	Deadline uint32 // 0 = never
}

// Map is the reference map with a caller-supplied clock.
type Map struct {
	M   map[string]*Item
	Now func() uint32
}

// New returns an empty map using the given clock.
func New(now func() uint32) *Map { return &Map{M: map[string]*Item{}, Now: now} }

// DeadlineFor converts a memcached exptime into an absolute deadline at time now.
func DeadlineFor(exp, now uint32) uint32 {
	if exp == 0 {
		return 0
	}
	if exp <= thirtyDays {
		return now + exp
	}
	return exp
}

// Live returns the live item for k or nil.
func (m *Map) Live(k string) *Item {
	it, ok := m.M[k]
	if !ok {
		return nil
	}
	if it.Deadline != 0 && it.Deadline <= m.Now() {
		return nil
	}
	return it
}

// Clone returns a deep copy (same clock).
func (m *Map) Clone() *Map {
	c := New(m.Now)
	for k, v := range m.M {
		c.M[k] = &Item{Value: append([]byte(nil), v.Value...), Flags: v.Flags, Deadline: v.Deadline}
	}
	return c
}

func (m *Map) store(k string, v []byte, flags, exp uint32) {
	m.M[k] = &Item{Value: append([]byte(nil), v...), Flags: flags, Deadline: DeadlineFor(exp, m.Now())}
}

// Set stores unconditionally.
func (m *Map) Set(k string, v []byte, flags, exp uint32) string { m.store(k, v, flags, exp); return OK }

// Add stores only if absent.
func (m *Map) Add(k string, v []byte, flags, exp uint32) string {
	if m.Live(k) != nil {
		return Exists
	}
	m.store(k, v, flags, exp)
	return OK
}

// Replace stores only if present.
func (m *Map) Replace(k string, v []byte, flags, exp uint32) string {
	if m.Live(k) == nil {
		return NotFound
	}
	m.store(k, v, flags, exp)
	return OK
}

// Append appends to a present value, keeping flags and deadline.
func (m *Map) Append(k string, v []byte) string {
	it := m.Live(k)
	if it == nil {
		return NotStored
	}
	it.Value = append(append([]byte(nil), it.Value...), v...)
	return OK
}

// Prepend prepends to a present value, keeping flags and deadline.
func (m *Map) Prepend(k string, v []byte) string {
	it := m.Live(k)
	if it == nil {
		return NotStored
	}
	it.Value = append(append([]byte(nil), v...), it.Value...)
	return OK
}

// Delete removes a present key.
func (m *Map) Delete(k string) string {
	if m.Live(k) == nil {
		delete(m.M, k)
		return NotFound
	}
	delete(m.M, k)
	return OK
}

// Touch sets a new deadline on a present key.
func (m *Map) Touch(k string, exp uint32) string {
	it := m.Live(k)
	if it == nil {
		return NotFound
	}
	it.Deadline = DeadlineFor(exp, m.Now())
	return OK
}

// Get returns the live item or nil.
func (m *Map) Get(k string) *Item { return m.Live(k) }

// Gat returns the live item and sets its deadline.
func (m *Map) Gat(k string, exp uint32) *Item {
	it := m.Live(k)
	if it == nil {
		return nil
	}
	it.Deadline = DeadlineFor(exp, m.Now())
	return it
}

// Keys returns the sorted live keys.
func (m *Map) Keys() []string {
	var ks []string
	for k := range m.M {
		if m.Live(k) != nil {
			ks = append(ks, k)
		}
	}
	sort.Strings(ks)
	return ks
}
