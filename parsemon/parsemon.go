// Package parsemon runs rend's request parsers over arbitrary bytes under monitors: panics,
// allocation against an input-derived bound, number of reads (no spinning), termination on EOF.
package parsemon

import (
	"bufio"
	"encoding/binary"
	"fmt"
	"io"
	"runtime/metrics"
	"strconv"
	"strings"

	"github.com/netflix/rend/protocol"
	"github.com/netflix/rend/protocol/binprot"
	"github.com/netflix/rend/protocol/textprot"
)

// C0 is the constant part of the allocation bound.
const C0 = 4 << 20 // generous: runtime/metrics accounts small allocations lazily (per span)

// MaxDeclared is the largest consistently declared size that is still executed.
const MaxDeclared = 1 << 20

type countReader struct {
	data  []byte
	pos   int
	step  int // 0 = everything at once
	reads int
}

func (c *countReader) Read(p []byte) (int, error) {
	c.reads++
	if c.pos >= len(c.data) {
		return 0, io.EOF
	}
	end := len(c.data)
	if c.step > 0 && c.pos+c.step < end {
		end = c.pos + c.step
	}
	n := copy(p, c.data[c.pos:end])
	c.pos += n
	return n, nil
}

var sample = []metrics.Sample{{Name: "/gc/heap/allocs:bytes"}}

func allocated() uint64 {
	metrics.Read(sample)
	return sample[0].Value.Uint64()
}

var stackSample = []metrics.Sample{{Name: "/memory/classes/heap/stacks:bytes"}}

// stackBytes is the memory currently reserved for goroutine stacks (a stack that grew during
// a call stays that large until a later garbage collection shrinks it).
func stackBytes() uint64 {
	metrics.Read(stackSample)
	return stackSample[0].Value.Uint64()
}

// DeclaredBinary over-approximates the sizes the input consistently declares: the sum of the
// total-body fields of every consistent header at any offset carrying the request magic.
// DeclaredBinaryMax is the largest total body any single consistent header declares, at any
// offset carrying the request magic. The sequential walk below follows the declared lengths;
// the parser does not always (a set-family frame with extras length 0 still has its 8 bytes of
// flags and expiry read), so a frame that consistently declares gigabytes may sit at an offset
// the walk never visits. Such inputs are outside the allocation bound and are skipped.
func DeclaredBinaryMax(in []byte) uint64 {
	var max uint64
	for off := 0; off+24 <= len(in); off++ {
		if in[off] != 0x80 {
			continue
		}
		kl := uint64(binary.BigEndian.Uint16(in[off+2 : off+4]))
		el := uint64(in[off+4])
		total := uint64(binary.BigEndian.Uint32(in[off+8 : off+12]))
		if kl+el <= total && total > max {
			max = total
		}
	}
	return max
}

func DeclaredBinary(in []byte) uint64 {
	var sum uint64
	for off := 0; off+24 <= len(in); off++ {
		if in[off] != 0x80 {
			continue
		}
		kl := uint64(binary.BigEndian.Uint16(in[off+2 : off+4]))
		el := uint64(in[off+4])
		total := uint64(binary.BigEndian.Uint32(in[off+8 : off+12]))
		if kl+el <= total {
			sum += total
		}
	}
	return sum
}

// DeclaredBinarySeq follows the frames from offset 0 the way a parser does and sums the total
// body lengths of the consistent headers on that path. It decides whether an input is skipped
// as "consistently declares more than MaxDeclared" (DeclaredBinary, which looks at every
// offset, only loosens the allocation bound).
func DeclaredBinarySeq(in []byte) uint64 {
	// The walk advances by what the parser consumes for the opcode, not by the total body the
	// header declares: the two differ for frames whose extras length is not what the command's
	// fixed format has (a set-family frame always has its 8 bytes of flags and expiry read, a
	// touch its 4, a get only its key).
	var sum uint64
	off := 0
	for off+24 <= len(in) && in[off] == 0x80 {
		op := in[off+1]
		kl := uint64(binary.BigEndian.Uint16(in[off+2 : off+4]))
		el := uint64(in[off+4])
		total := uint64(binary.BigEndian.Uint32(in[off+8 : off+12]))
		var consumed uint64
		switch op {
		case 0x01, 0x02, 0x03, 0x11, 0x12, 0x13: // set family
			if kl+el > total {
				return sum
			}
			sum += total
			consumed = total - el + 8
		case 0x0e, 0x0f, 0x19, 0x1a: // append / prepend
			if kl+el > total {
				return sum
			}
			sum += total
			consumed = total
		case 0x00, 0x09, 0x40, 0x41, 0x04: // get family, delete
			sum += kl
			consumed = kl
		case 0x1c, 0x1d: // touch, gat
			sum += kl
			consumed = 4 + kl
		default: // noop, quit, version, stat; unknown opcodes are answered and parsing goes on
			consumed = 0
		}
		if consumed > uint64(len(in)) {
			break
		}
		off += 24 + int(consumed)
	}
	return sum
}

// InconsistentFirstFrame reports whether the input starts with a header whose total body is
// shorter than key + extras.
func InconsistentFirstFrame(in []byte) bool {
	if len(in) < 24 || in[0] != 0x80 {
		return false
	}
	kl := uint32(binary.BigEndian.Uint16(in[2:4]))
	el := uint32(in[4])
	return kl+el > binary.BigEndian.Uint32(in[8:12])
}

// DeclaredText sums the data lengths declared by storage command lines.
func DeclaredText(in []byte) uint64 {
	var sum uint64
	for _, line := range strings.Split(string(in), "\n") {
		parts := strings.Split(strings.TrimSpace(line), " ")
		if len(parts) == 5 {
			switch parts[0] {
			case "set", "add", "replace", "append", "prepend":
				if n, err := strconv.ParseUint(strings.TrimSpace(parts[4]), 10, 32); err == nil {
					sum += n
				}
			}
		}
	}
	return sum
}

// Result of one monitored run.
type Result struct {
	Violation string
	Skipped   bool
	Parses    int
	Allocated uint64
	Stack     uint64 // growth of goroutine stack memory during the run
	Bound     uint64
	Reads     int
	LastErr   string
}

// Check parses in until the parser reports an error (EOF at the latest) under the monitors.
func Check(bin bool, in []byte, step int) (res Result) {
	var declared, seq uint64
	if bin {
		declared = DeclaredBinary(in)
		seq = DeclaredBinarySeq(in)
		if declared > 16<<20 {
			declared = 16 << 20 // phantom headers inside keys / opaques only loosen the bound so far
		}
	} else {
		declared = DeclaredText(in)
		seq = declared
	}
	if seq > MaxDeclared {
		res.Skipped = true
		return
	}
	res.Bound = C0 + 2*declared + 8*uint64(len(in))
	cr := &countReader{data: in, step: step}
	br := bufio.NewReader(cr)
	var parser protocol.RequestParser
	if bin {
		parser = binprot.NewBinaryParser(br)
	} else {
		parser = textprot.NewTextParser(br)
	}
	before := allocated()
	stackBefore := stackBytes()
	defer func() {
		if r := recover(); r != nil {
			res.Violation = fmt.Sprintf("parser panicked: %v", r)
		}
	}()
	maxParses := len(in) + 4
	for {
		_, _, _, err := parser.Parse()
		res.Parses++
		if err != nil {
			res.LastErr = err.Error()
			if isTextClientError(err.Error()) {
				// the server answers these and keeps parsing: every such error must have consumed input
				if res.Parses < maxParses {
					continue
				}
				res.Violation = "parser keeps reporting a client error without consuming input (the server loop would spin)"
			}
			break
		}
		if res.Parses > maxParses {
			res.Violation = "parser keeps returning requests without consuming input"
			break
		}
	}
	res.Allocated = allocated() - before
	if sb := stackBytes(); sb > stackBefore {
		res.Stack = sb - stackBefore
	}
	res.Reads = cr.reads
	maxReads := len(in) + 8
	if step > 0 {
		maxReads = len(in)/step + len(in) + 8
	}
	if res.Violation == "" && res.Reads > maxReads {
		res.Violation = "parser issued more reads than input bytes (spinning)"
	}
	if res.Violation == "" && res.Allocated > res.Bound {
		if bin && InconsistentFirstFrame(in) {
			res.Violation = "allocation sized by the wrapped-around length of an inconsistent frame"
		} else {
			res.Violation = "allocation beyond constant + consistently declared sizes + supplied bytes"
		}
	}
	if res.Violation == "" && res.Stack > res.Bound {
		res.Violation = "goroutine stack grows with the input beyond constant + declared sizes + supplied bytes (recursion per request)"
	}
	return
}

func isTextClientError(s string) bool { return strings.HasPrefix(s, "CLIENT_ERROR") }
