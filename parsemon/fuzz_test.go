package parsemon

import (
	"testing"
)

func seedsBinary() [][]byte {
	h := func(op byte, kl uint16, el byte, total uint32, rest ...byte) []byte {
		b := make([]byte, 24)
		b[0] = 0x80
		b[1] = op
		b[2], b[3] = byte(kl>>8), byte(kl)
		b[4] = el
		b[8], b[9], b[10], b[11] = byte(total>>24), byte(total>>16), byte(total>>8), byte(total)
		return append(b, rest...)
	}
	return [][]byte{
		h(0x01, 1, 8, 10, 0, 0, 0, 0, 0, 0, 0, 0, 'k', 'v'),
		h(0x00, 1, 0, 1, 'k'),
		h(0x09, 1, 0, 1, 'a'), h(0x0a, 0, 0, 0),
		h(0x0e, 1, 0, 2, 'k', 'v'),
		h(0x1c, 1, 4, 5, 0, 0, 0, 9, 'k'),
		h(0x1d, 1, 4, 5, 0, 0, 0, 9, 'k'),
		h(0x04, 1, 0, 1, 'k'), h(0x07, 0, 0, 0), h(0x0b, 0, 0, 0), h(0x10, 0, 0, 0),
		h(0x40, 1, 0, 1, 'k'), h(0x41, 1, 0, 1, 'k'),
		h(0x01, 3, 8, 0),
	}
}

func FuzzBinaryParser(f *testing.F) {
	for _, s := range seedsBinary() {
		f.Add(s)
	}
	f.Fuzz(func(t *testing.T, in []byte) {
		r := Check(true, in, 0)
		if r.Violation != "" {
			t.Fatalf("VIOLATION-KIND: %s (allocated %d, bound %d, reads %d)", r.Violation, r.Allocated, r.Bound, r.Reads)
		}
	})
}

func FuzzTextParser(f *testing.F) {
	for _, s := range []string{"set k 0 0 1\r\nv\r\n", "get a b\r\n", "delete k\r\n", "touch k 1\r\n", "noop\r\n", "quit\r\n", "version\r\n", "stats\r\n", "append k 0 0 2\r\nab\r\n", "set k 0 0 x\r\n"} {
		f.Add([]byte(s))
	}
	f.Fuzz(func(t *testing.T, in []byte) {
		r := Check(false, in, 0)
		if r.Violation != "" {
			t.Fatalf("VIOLATION-KIND: %s (allocated %d, bound %d, reads %d)", r.Violation, r.Allocated, r.Bound, r.Reads)
		}
	})
}
