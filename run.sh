#!/bin/bash
# usage: ./run.sh <Cxx> [quick|thorough] [--replay file]
# Rebuilds the check driver (and, inside it, memproxy) from /repo's current working tree.
set -u
cd "$(dirname "$0")"
export GOFLAGS=-mod=mod GOPROXY=off GOSUMDB=off GOTOOLCHAIN=local
export VERIF_DIR="$(pwd)"
# the driver itself is built with -race for some checks: a race inside the driver must not
# turn into exit status 66 (children and memproxy get their own GORACE settings)
export GORACE="exitcode=0"
SCRATCH="$(mktemp -d /tmp/verif-XXXXXX)"
export VERIF_SCRATCH="$SCRATCH"
trap 'rm -rf "$SCRATCH"' EXIT
RACE=""
case "${1:-}" in
  C06|C13|C14|C17|C18|c06|c13|c14|c17|c18) RACE="-race" ;;
esac
if ! go build $RACE -tags verif -o "$SCRATCH/check" ./cmd/check 2> "$SCRATCH/build.log"; then
  cat "$SCRATCH/build.log"
  echo "BUILD-FAILED: the check driver does not build against the current /repo tree"
  exit 3
fi
"$SCRATCH/check" "$@"
rc=$?
exit $rc
