#!/bin/bash
# usage: ./seedtest.sh <patch.diff> <tier> <Cxx> [Cyy ...]
# Applies a seeded change to /repo, runs the given checks, prints which fire, and undoes the change.
set -u
cd "$(dirname "$0")"
PATCH="$1"; TIER="$2"; shift 2
if ! git -C /repo diff --quiet; then echo "/repo has local changes; refusing"; exit 9; fi
if ! git -C /repo apply "$PATCH"; then echo "patch does not apply"; exit 8; fi
trap 'git -C /repo checkout -- . ; git -C /repo clean -fdq -- orcas server handlers protocol metrics common timer 2>/dev/null' EXIT
for c in "$@"; do
  out=$(VERIF_OUT_DIR=/tmp/seedout ./run.sh "$c" "$TIER" 2>&1)
  rc=$?
  nv=$(echo "$out" | grep -c '^VIOLATION')
  first=$(echo "$out" | grep -m1 'signature:' | cut -c1-220)
  echo "$c rc=$rc violations=$nv $first"
done
