#!/bin/bash
# usage: ./seedtest_iso.sh <patch.diff> <tier> <Cxx> [Cyy ...]
# Like seedtest.sh, but never touches /repo: the seeded change is applied to a scratch worktree of
# /repo's HEAD and the checks run from a scratch copy of /verif whose go.mod points at that
# worktree (VERIF_REPO tells the harness where to build memproxy). Safe to run next to a sweep.
set -u
cd "$(dirname "$0")"
PATCH="$(readlink -f "$1")"; TIER="$2"; shift 2
ISO="$(mktemp -d /tmp/iso-XXXXXX)"
cleanup() {
  git -C /repo worktree remove --force "$ISO/repo" 2>/dev/null
  rm -rf "$ISO"
  git -C /repo worktree prune
}
trap cleanup EXIT
git -C /repo worktree add -q --detach "$ISO/repo" HEAD || { echo "worktree failed"; exit 9; }
if ! git -C "$ISO/repo" apply "$PATCH"; then echo "patch does not apply"; exit 8; fi
mkdir "$ISO/verif"
rsync -a --exclude .git --exclude evidence --exclude seeded ./ "$ISO/verif/"
sed -i "s#=> /repo#=> $ISO/repo#" "$ISO/verif/go.mod"
mkdir -p "$ISO/out"
for c in "$@"; do
  out=$(cd "$ISO/verif" && VERIF_REPO="$ISO/repo" VERIF_OUT_DIR="$ISO/out" ./run.sh "$c" "$TIER" 2>&1)
  rc=$?
  nv=$(echo "$out" | grep -c '^VIOLATION')
  first=$(echo "$out" | grep -m1 'signature:' | cut -c1-220)
  echo "$c rc=$rc violations=$nv $first"
  if [ $rc -eq 3 ]; then echo "$out" | head -20; fi
done
