#!/usr/bin/env python3
"""Own mutation smoke tests: applies small source edits to /repo one at a time, runs the named quick checks
(evidence redirected), reports which fire, and restores the file. usage: mutate.py [name-substring]"""
import subprocess, sys, os
M = [
 # name, file, old, new, checks
 ("l1l2-delete-skips-l1", "orcas/l1l2.go", "\terr = l.l1.Delete(req)\n\n\tmetrics.ObserveHist(HistDeleteL1", "\terr = error(nil)\n\n\tmetrics.ObserveHist(HistDeleteL1", "C01 C02"),
 ("backfill-drops-flags", "orcas/l1l2.go", "\t\t\t\t\t\tFlags:   res.Flags,\n\t\t\t\t\t\tExptime: res.Exptime,", "\t\t\t\t\t\tExptime: res.Exptime,", "C01 C02"),
 ("backfill-ttl-zero", "orcas/l1l2.go", "\t\t\t\t\t\tExptime: res.Exptime,\n", "\t\t\t\t\t\tExptime: 0,\n", "C09"),
 ("batch-add-adds-into-l1", "orcas/l1l2batch.go", None, None, ""),
 ("numchunks-floor", "handlers/memcached/chunked/handler.go", "numChunks := int(math.Ceil(float64(len(cmd.Data)) / float64(dataSize)))", "numChunks := int(math.Floor(float64(len(cmd.Data)) / float64(dataSize)))", "C04 C16"),
 ("chunksize-token-not-subtracted", "handlers/memcached/chunked/handler.go", "\tdataSize = fullSize - tokenSize", "\tdataSize = fullSize - tokenSize + 16\n\tfullSize += 16", "C16"),
 ("slice-indices-off-by-one", "handlers/memcached/chunked/keys.go", "start := chunkSize * chunkNum", "start := chunkSize*chunkNum + (chunkNum / 3)", "C04"),
 ("keylen-little-endian", "protocol/binprot/headers.go", "\trh.KeyLength = binary.BigEndian.Uint16(buf[2:4])\n\trh.ExtraLength = buf[4]\n\t// ignore DataType, unused\n\t//rh.DataType = buf[5]\n\trh.DataType = 0\n\t// ignore VBucket", "\trh.KeyLength = binary.LittleEndian.Uint16(buf[2:4])\n\trh.ExtraLength = buf[4]\n\t// ignore DataType, unused\n\t//rh.DataType = buf[5]\n\trh.DataType = 0\n\t// ignore VBucket", "C07"),
 ("setq-quiet-dropped", "protocol/binprot/parser.go", "return setRequest(b.reader, reqHeader, common.RequestReplace, true, start)", "return setRequest(b.reader, reqHeader, common.RequestReplace, false, start)", "C07 C08"),
 ("noop-opaque-lost", "protocol/binprot/parser.go", "\t\tnoopEnd = true\n\t\tnoopOpaque = header.OpaqueToken\n\n\t} else {\n\t\t// no idea... this is a problem though.\n\t\t// unexpected patterns shouldn't come over the wire, so maybe it will\n\t\t// be OK to simply discount this situation. Probably not.\n\t}\n\n\t// Regardless of the header, we want to put it back here\n\treqHeadPool.Put(header)\n\n\treturn common.GetRequest{\n\t\tKeys:       keys,\n\t\tOpaques:    opaques,\n\t\tQuiet:      quiet,\n\t\tNoopOpaque: noopOpaque,\n\t\tNoopEnd:    noopEnd,\n\t}, nil\n}\n\nfunc readBatchGetE", "\t\tnoopEnd = true\n\n\t} else {\n\t}\n\n\t// Regardless of the header, we want to put it back here\n\treqHeadPool.Put(header)\n\n\treturn common.GetRequest{\n\t\tKeys:       keys,\n\t\tOpaques:    opaques,\n\t\tQuiet:      quiet,\n\t\tNoopOpaque: noopOpaque,\n\t\tNoopEnd:    noopEnd,\n\t}, nil\n}\n\nfunc readBatchGetE", "C07 C08"),
 ("text-data-readstring", "protocol/textprot/parser.go", "\tr.ReadString(byte('\\n'))\n\tmetrics.IncCounterBy(common.MetricBytesReadRemote, 2)", "\tr.Discard(2)\n\tr.Peek(1)\n\tmetrics.IncCounterBy(common.MetricBytesReadRemote, 2)", "C07"),
 ("error-reply-no-flush", "protocol/binprot/respond.go", "\tif err := w.Flush(); err != nil {\n\t\tresHeadPool.Put(header)\n\t\treturn err\n\t}\n\n\tmetrics.IncCounterBy(common.MetricBytesWrittenRemote, resHeaderLen)\n\tresHeadPool.Put(header)\n\n\treturn nil\n}\n", "\tmetrics.IncCounterBy(common.MetricBytesWrittenRemote, resHeaderLen)\n\tresHeadPool.Put(header)\n\n\treturn nil\n}\n", "C08"),
 ("getcommon-bodylen-off", "protocol/binprot/respond.go", "\ttotalBodyLength := len(response.Data) + 4\n\twriteSuccessResponseHeader(w, opcode, 0, 4, totalBodyLength, response.Opaque, false)", "\ttotalBodyLength := len(response.Data) + 4\n\tif len(response.Data) == 0 {\n\t\ttotalBodyLength = 0\n\t}\n\twriteSuccessResponseHeader(w, opcode, 0, 4, totalBodyLength, response.Opaque, false)", "C08 C01"),
 ("abort-skips-l2", "server/utils.go", "\tfor _, c := range toClose {\n\t\tif c != nil {", "\tfor i, c := range toClose {\n\t\tif c != nil && i != 2 {", "C15"),
 ("loop-no-recover", "server/default.go", "\t\tif r := recover(); r != nil {\n\t\t\tif r != io.EOF {", "\t\tif r := recover(); r != nil && r == io.EOF {\n\t\t\tif r != io.EOF {", "C10 C12"),
 ("counter-nonatomic", "metrics/counters.go", "func IncCounter(id uint32) {\n\tatomic.AddUint64(&counters[id], 1)", "func IncCounter(id uint32) {\n\tcounters[id]++", "C18 C14"),
 ("getbucket-no-plus1", "metrics/histograms.go", "\treturn uint64(pos + 1)\n}", "\treturn uint64(pos)\n}", "C18"),
 ("touch-fanout-forgets-l1", "orcas/l1l2.go", "\terr = l.l1.Touch(req)\n", "\terr = common.ErrKeyNotFound\n", "C09"),
 ("locked-gat-readlock", "orcas/locked.go", "func (l *LockedOrca) Gat(req common.GATRequest) error {\n\tlock := l.getlock(req.Key, false)", "func (l *LockedOrca) Gat(req common.GATRequest) error {\n\tlock := l.getlock(req.Key, true)", "C03"),
 ("locked-hash-first-byte", "orcas/locked.go", "\th.Write(key)\n\tbucket := int(h.Sum32())", "\th.Write(key[:1])\n\tbucket := int(h.Sum32())", "C03 C12"),
 ("lockedwithexisting-fresh-set", "orcas/locked.go", "\t\t\tlocks:   locks[locksetID],\n\t\t\trlocks:  rlocks[locksetID],", "\t\t\tlocks:   locks[getNewLocks(false, 4)],\n\t\t\trlocks:  rlocks[locksetID],", "C03"),
 ("inmem-touch-keeps-ttl", "handlers/inmem/inmem.go", None, None, ""),
 ("ketama-revert-tiebreak", "handlers/memcached/cluster/ketama.go", "\tif c[i].point == c[j].point {\n\t\treturn c[i].bucket.Label() < c[j].bucket.Label()\n\t}\n", "", "C19"),
 ("batched-route-by-arrival", "handlers/memcached/batched/conn.go", None, None, ""),
 ("chunked-delete-skips-chunks", "handlers/memcached/chunked/handler.go", "\t// Then delete data chunks\n\tfor i := 0; i < int(metaData.NumChunks); i++ {", "\t// Then delete data chunks\n\tfor i := 1; i < int(metaData.NumChunks); i++ {", "C04"),
]
sel = sys.argv[1] if len(sys.argv) > 1 else ""
env = dict(os.environ, VERIF_OUT_DIR="/tmp/mutout")
for name, f, old, new, checks in M:
    if old is None or sel not in name: continue
    path = "/repo/" + f
    src = open(path).read()
    if src.count(old) != 1:
        print(f"{name}: pattern count {src.count(old)} - SKIP"); continue
    open(path, "w").write(src.replace(old, new))
    try:
        b = subprocess.run("cd /repo && GOFLAGS=-mod=mod GOPROXY=off go build ./orcas/... ./server/... ./handlers/... ./protocol/... ./metrics/... && go build -o /dev/null app/memproxy.go", shell=True, capture_output=True, text=True)
        if b.returncode != 0:
            print(f"{name}: does not build: {b.stderr[-300:]}"); continue
        res = []
        for c in checks.split():
            r = subprocess.run(["./run.sh", c, "quick"], cwd="/verif", capture_output=True, text=True, env=env)
            nv = r.stdout.count("\nVIOLATION") + (1 if r.stdout.startswith("VIOLATION") else 0)
            first = next((l.strip()[:150] for l in r.stdout.splitlines() if "signature:" in l), "")
            res.append(f"{c}:rc={r.returncode},viol={nv} {first}")
        print(f"{name}: " + " | ".join(res), flush=True)
    finally:
        open(path, "w").write(src)
subprocess.run("git -C /repo status --short", shell=True)
