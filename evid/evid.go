// Package evid collects what a check observed, decides the exit status, writes the evidence
// file, replay files and applies the committed known-findings list.
package evid

import (
	"crypto/sha1"
	"encoding/hex"
	"encoding/json"
	"fmt"
	"os"
	"path/filepath"
	"sort"
	"strconv"
	"strings"
	"sync"
	"time"
)

// VerifDir is the root of the verification tree.
var VerifDir = func() string {
	if v := os.Getenv("VERIF_DIR"); v != "" {
		return v
	}
	return "/verif"
}()

// OutDir is where evidence and replay files are written (VERIF_OUT_DIR overrides it for
// experiments such as running the checks against a seeded change).
var OutDir = func() string {
	if v := os.Getenv("VERIF_OUT_DIR"); v != "" {
		return v
	}
	return VerifDir
}()

// Out is where verdict lines go (the process's original stdout).
var Out = os.Stdout

// Seed returns VERIF_SEED (default 1).
func Seed() int64 {
	if v := os.Getenv("VERIF_SEED"); v != "" {
		if n, err := strconv.ParseInt(v, 10, 64); err == nil {
			return n
		}
	}
	return 1
}

// Finding is one entry of known_findings.json.
type Finding struct {
	Status    string `json:"status"` // known | fixed
	Property  string `json:"property"`
	Signature string `json:"signature"`
	What      string `json:"what"`
	Commit    string `json:"commit,omitempty"`
}

type findingsFile struct {
	Findings []Finding `json:"findings"`
}

func loadFindings() []Finding {
	b, err := os.ReadFile(filepath.Join(VerifDir, "known_findings.json"))
	if err != nil {
		return nil
	}
	var f findingsFile
	if err := json.Unmarshal(b, &f); err != nil {
		fmt.Fprintf(os.Stderr, "known_findings.json unreadable: %v\n", err)
		return nil
	}
	return f.Findings
}

// Violation is one reported violation.
type Violation struct {
	Signature string      `json:"signature"`
	Replay    string      `json:"replay"`
	Witness   interface{} `json:"witness"`
	Known     bool        `json:"known"`
}

// Run accumulates the observations of one check execution.
type Run struct {
	ID    string
	Tier  string
	Level string
	seed  int64
	start time.Time

	mu           sync.Mutex
	evaluations  int64
	distinct     map[string]struct{}
	samples      []interface{}
	maxSamples   int
	counters     map[string]int64
	sets         map[string]map[string]struct{}
	floors       map[string]int64
	violations   map[string]*Violation
	vorder       []string
	inconclusive []string
	rule         string
	assumptions  []string
	exhaustive   *bool
	extra        map[string]interface{}
	findings     []Finding
	replayN      int
}

// NewRun starts a run for property id.
func NewRun(id, tier, level string) *Run {
	if tier != "thorough" {
		tier = "quick"
	}
	return &Run{
		ID: id, Tier: tier, Level: level, seed: Seed(), start: time.Now(),
		distinct: map[string]struct{}{}, maxSamples: 6, counters: map[string]int64{},
		sets: map[string]map[string]struct{}{}, floors: map[string]int64{},
		violations: map[string]*Violation{}, extra: map[string]interface{}{},
		findings: loadFindings(),
	}
}

// Seed is the seed of this run.
func (r *Run) Seed() int64 { return r.seed }

// Thorough reports whether the thorough tier runs.
func (r *Run) Thorough() bool { return r.Tier == "thorough" }

// Pick returns q for the quick tier and t for the thorough tier.
func (r *Run) Pick(q, t int) int {
	if r.Thorough() {
		return t
	}
	return q
}

// Rule sets the description of how cases are generated and counted.
func (r *Run) Rule(s string) { r.mu.Lock(); r.rule = s; r.mu.Unlock() }

// Assume records an assumption.
func (r *Run) Assume(s string) { r.mu.Lock(); r.assumptions = append(r.assumptions, s); r.mu.Unlock() }

// Eval counts executed cases.
func (r *Run) Eval(n int) { r.mu.Lock(); r.evaluations += int64(n); r.mu.Unlock() }

// Distinct records a non-trivial case by its distinguishing key.
func (r *Run) Distinct(key string) {
	h := sha1.Sum([]byte(key))
	k := hex.EncodeToString(h[:8])
	r.mu.Lock()
	r.distinct[k] = struct{}{}
	r.mu.Unlock()
}

// Sample keeps a few written-out cases.
func (r *Run) Sample(v interface{}) {
	r.mu.Lock()
	if len(r.samples) < r.maxSamples {
		r.samples = append(r.samples, v)
	}
	r.mu.Unlock()
}

// Count adds to a named observation counter.
func (r *Run) Count(name string, n int64) { r.mu.Lock(); r.counters[name] += n; r.mu.Unlock() }

// SetAdd adds a member to a named set of distinct observations (reported by size).
func (r *Run) SetAdd(name, member string) {
	r.mu.Lock()
	s := r.sets[name]
	if s == nil {
		s = map[string]struct{}{}
		r.sets[name] = s
	}
	s[member] = struct{}{}
	r.mu.Unlock()
}

// Floor requires counter name to reach min, otherwise the run "observed nothing" (exit 2).
func (r *Run) Floor(name string, min int64) { r.mu.Lock(); r.floors[name] = min; r.mu.Unlock() }

// Extra stores an additional coverage key.
func (r *Run) Extra(k string, v interface{}) { r.mu.Lock(); r.extra[k] = v; r.mu.Unlock() }

// Exhaustive marks whether a finite space was enumerated completely.
func (r *Run) Exhaustive(b bool) { r.mu.Lock(); r.exhaustive = &b; r.mu.Unlock() }

// Inconclusive records a case that could not be decided.
func (r *Run) Inconclusive(reason string) {
	r.mu.Lock()
	r.inconclusive = append(r.inconclusive, reason)
	r.mu.Unlock()
	fmt.Fprintf(Out, "INCONCLUSIVE property=%s %s\n", r.ID, reason)
}

// NumViolations returns the number of distinct unknown violation signatures so far.
func (r *Run) NumViolations() int {
	r.mu.Lock()
	defer r.mu.Unlock()
	n := 0
	for _, v := range r.violations {
		if !v.Known {
			n++
		}
	}
	return n
}

// Violation reports a violation with a canonical signature and a witness. The first occurrence
// of each signature writes a replay file and prints the VIOLATION (or KNOWN-FINDING) line.
func (r *Run) Violation(signature string, witness interface{}) {
	signature = strings.Join(strings.Fields(signature), " ")
	r.mu.Lock()
	if _, dup := r.violations[signature]; dup {
		r.counters["violation_occurrences"]++
		r.mu.Unlock()
		return
	}
	r.counters["violation_occurrences"]++
	v := &Violation{Signature: signature, Witness: witness}
	for _, f := range r.findings {
		if f.Status == "known" && f.Property == r.ID && f.Signature == signature {
			v.Known = true
		}
	}
	r.violations[signature] = v
	r.vorder = append(r.vorder, signature)
	r.replayN++
	n := r.replayN
	tooMany := len(r.violations) > 40
	r.mu.Unlock()

	if v.Known {
		fmt.Fprintf(Out, "KNOWN-FINDING: property=%s %s\n", r.ID, signature)
		return
	}
	if tooMany {
		return
	}
	dir := filepath.Join(OutDir, "replays")
	os.MkdirAll(dir, 0o755)
	path := filepath.Join(dir, fmt.Sprintf("%s-%d-%d.json", r.ID, r.seed, n))
	b, _ := json.MarshalIndent(map[string]interface{}{
		"property": r.ID, "seed": r.seed, "tier": r.Tier, "signature": signature, "witness": witness,
	}, "", " ")
	os.WriteFile(path, b, 0o644)
	v.Replay = path
	fmt.Fprintf(Out, "VIOLATION property=%s replay=%s\n", r.ID, path)
	fmt.Fprintf(Out, "  signature: %s\n", signature)
	// a child process hands its state to the parent right away: it may not survive the case
	if p := os.Getenv("VERIF_CHILD_EXPORT"); p != "" {
		r.Export(p)
	}
}

// Finish writes the evidence file and returns the process exit code.
func (r *Run) Finish() int {
	r.mu.Lock()
	defer r.mu.Unlock()
	unknown := 0
	for _, v := range r.violations {
		if !v.Known {
			unknown++
		}
	}
	cov := map[string]interface{}{
		"evaluations":         r.evaluations,
		"distinct_nontrivial": len(r.distinct),
		"rule":                r.rule,
		"samples":             r.samples,
		"observed":            r.counters,
		"inconclusive":        len(r.inconclusive),
	}
	if len(r.inconclusive) > 0 {
		n := len(r.inconclusive)
		if n > 10 {
			n = 10
		}
		cov["inconclusive_reasons"] = r.inconclusive[:n]
	}
	sizes := map[string]int{}
	for k, s := range r.sets {
		sizes[k] = len(s)
	}
	if len(sizes) > 0 {
		cov["distinct_observed"] = sizes
	}
	if r.exhaustive != nil {
		cov["exhaustive"] = *r.exhaustive
	}
	for k, v := range r.extra {
		cov[k] = v
	}
	var known []string
	var sigs []string
	for _, s := range r.vorder {
		if r.violations[s].Known {
			known = append(known, s)
		} else {
			sigs = append(sigs, s)
		}
	}
	if len(known) > 0 {
		cov["known_findings_reproduced"] = known
	}
	if len(sigs) > 0 {
		cov["violation_signatures"] = sigs
	}
	if len(r.samples) == 0 {
		cov["samples"] = []interface{}{"(no case executed)"}
	}
	if r.assumptions == nil {
		r.assumptions = []string{}
	}
	ev := map[string]interface{}{
		"property_id": r.ID, "tier": r.Tier, "seed": r.seed, "level": r.Level,
		"coverage": cov, "assumptions": r.assumptions,
		"wall_s":     time.Since(r.start).Seconds(),
		"violations": unknown,
	}
	dir := filepath.Join(OutDir, "evidence")
	os.MkdirAll(dir, 0o755)
	b, _ := json.MarshalIndent(ev, "", " ")
	if err := os.WriteFile(filepath.Join(dir, r.ID+".json"), b, 0o644); err != nil {
		fmt.Fprintf(os.Stderr, "writing evidence: %v\n", err)
	}

	keys := make([]string, 0, len(r.counters))
	for k := range r.counters {
		keys = append(keys, k)
	}
	sort.Strings(keys)
	fmt.Fprintf(Out, "%s %s seed=%d: evaluations=%d distinct_nontrivial=%d inconclusive=%d violations=%d known=%d wall=%.1fs\n",
		r.ID, r.Tier, r.seed, r.evaluations, len(r.distinct), len(r.inconclusive), unknown, len(known), time.Since(r.start).Seconds())
	for _, k := range keys {
		fmt.Fprintf(Out, "  observed %-40s %d\n", k, r.counters[k])
	}
	for k, n := range sizes {
		fmt.Fprintf(Out, "  distinct %-40s %d\n", k, n)
	}
	if unknown > 0 {
		return 1
	}
	for name, min := range r.floors {
		if r.counters[name] < min {
			fmt.Fprintf(Out, "BROKEN-CHECK property=%s observed %s=%d below floor %d\n", r.ID, name, r.counters[name], min)
			return 2
		}
	}
	if len(r.distinct) < 2 || r.evaluations < 1 {
		fmt.Fprintf(Out, "BROKEN-CHECK property=%s observed too few distinct cases\n", r.ID)
		return 2
	}
	if len(r.inconclusive) > 0 {
		// inconclusive cases are reported, never folded into held/violated; the run as a
		// whole still "held on what was observed" if enough was observed (floors above).
		return 0
	}
	return 0
}

// exported is the serialised state a child process hands back to its parent.
type exported struct {
	Evaluations  int64                  `json:"evaluations"`
	Distinct     []string               `json:"distinct"`
	Samples      []interface{}          `json:"samples"`
	Counters     map[string]int64       `json:"counters"`
	Sets         map[string][]string    `json:"sets"`
	Violations   []*Violation           `json:"violations"`
	Inconclusive []string               `json:"inconclusive"`
	Extra        map[string]interface{} `json:"extra"`
}

// Export writes the accumulated state to path (child side).
func (r *Run) Export(path string) error {
	r.mu.Lock()
	defer r.mu.Unlock()
	e := exported{Evaluations: r.evaluations, Samples: r.samples, Counters: r.counters, Inconclusive: r.inconclusive, Extra: r.extra, Sets: map[string][]string{}}
	for k := range r.distinct {
		e.Distinct = append(e.Distinct, k)
	}
	for name, s := range r.sets {
		for m := range s {
			e.Sets[name] = append(e.Sets[name], m)
		}
	}
	for _, s := range r.vorder {
		e.Violations = append(e.Violations, r.violations[s])
	}
	b, err := json.Marshal(e)
	if err != nil {
		return err
	}
	return os.WriteFile(path, b, 0o644)
}

// Import merges the state exported by a child (parent side). Violations were already printed
// by the child.
func (r *Run) Import(path string) error {
	b, err := os.ReadFile(path)
	if err != nil {
		return err
	}
	var e exported
	if err := json.Unmarshal(b, &e); err != nil {
		return err
	}
	r.mu.Lock()
	defer r.mu.Unlock()
	r.evaluations += e.Evaluations
	for _, k := range e.Distinct {
		r.distinct[k] = struct{}{}
	}
	for _, s := range e.Samples {
		if len(r.samples) < r.maxSamples {
			r.samples = append(r.samples, s)
		}
	}
	for k, v := range e.Counters {
		r.counters[k] += v
	}
	for name, ms := range e.Sets {
		s := r.sets[name]
		if s == nil {
			s = map[string]struct{}{}
			r.sets[name] = s
		}
		for _, m := range ms {
			s[m] = struct{}{}
		}
	}
	for _, v := range e.Violations {
		if _, dup := r.violations[v.Signature]; !dup {
			r.violations[v.Signature] = v
			r.vorder = append(r.vorder, v.Signature)
			r.replayN++
		}
	}
	r.inconclusive = append(r.inconclusive, e.Inconclusive...)
	for k, v := range e.Extra {
		r.extra[k] = v
	}
	return nil
}

// ReplayBase makes child replay file names unique.
func (r *Run) ReplayBase(n int) { r.mu.Lock(); r.replayN = n; r.mu.Unlock() }
