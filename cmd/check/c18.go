package main

import (
	"fmt"
	"math"
	"math/bits"
	"math/rand"
	"net/http"
	"net/http/httptest"
	"os"
	"os/exec"
	"path/filepath"
	"runtime"
	"sort"
	"strconv"
	"strings"
	"sync"
	"sync/atomic"
	"time"

	"github.com/netflix/rend/metrics"

	"verif/evid"
	"verif/harness"
)

func init() {
	checks["C18"] = checkC18
	children["C18"] = childC18
}

func checkC18(tier, replay string) int {
	run := evid.NewRun("C18", tier, "exploration")
	run.Rule("the real /metrics handler is invoked in-process and parsed: counters after N goroutines x M increments must equal the exact sums; " +
		"histograms: for multisets of sizes {1,2,3,19,20,21,100,1000,32767,32768,...} over three consecutive reporting periods count = observations, min <= every percentile <= max, every percentile is a member of the period's multiset; " +
		"concurrent observers + 1 or 3 scrapers: sum of period counts = total observations, sum of bucket counters = total, membership in the global multiset; " +
		"periods opened by a barrier-released burst of 8 observers (64 histograms per scrape): exact min/max/count/membership; paced observers under three overlapping /metrics requests; " +
		"1600 counters registered concurrently from 8 goroutines and 6000 more sequentially, each read back by name; the race detector watches the whole child; " +
		"bucket index (via the verif hook) is monotone with bound >= value for 0..2^16, every table bound +-1, every 2^k +-1 and random values per magnitude; " +
		"the assembly bit count (hook) and the portable routine (compiled from a scratch copy of metrics/lzcnt.go) both against math/bits on all one/two-bit patterns, 2^k +-1 and random inputs. " +
		"distinct_nontrivial = distinct (multiset size, magnitude, period) histogram reads + distinct counter/bucket/lzcnt input classes")
	res := spawnChild(run, "C18", 20*time.Minute, nil)
	if res.Crashed || res.TimedOut {
		if res.TimedOut {
			run.Inconclusive("C18 child did not finish; last case: " + res.LastCase)
		} else {
			run.Violation("metrics|process crashed|"+crashKind(res.Stderr), map[string]interface{}{"last_case": res.LastCase, "stderr_tail": lastLines(res.Stderr, 60)})
		}
	}
	for _, r := range parseRaces(res.Stderr) {
		if r.InRend {
			run.Violation("metrics|data race: "+r.Pair, map[string]interface{}{"report": r.Text})
		}
	}
	c18Portable(run)
	run.Floor("histogram_reads_checked", 20)
	run.Floor("bucket_values_checked", 60000)
	run.Floor("lzcnt_inputs_checked", 10000)
	return run.Finish()
}

type metricLine struct {
	Name string
	Tags map[string]string
	Val  string
}

func scrapeMetrics() []metricLine { return scrapeFiltered("") }

// scrapeFiltered invokes the real /metrics handler and parses the lines whose name contains sub.
func scrapeFiltered(sub string) []metricLine {
	rec := httptest.NewRecorder()
	req := httptest.NewRequest("GET", "/metrics", nil)
	http.DefaultServeMux.ServeHTTP(rec, req)
	var out []metricLine
	for _, l := range strings.Split(rec.Body.String(), "\n") {
		sp := strings.LastIndex(l, " ")
		if sp < 0 || (sub != "" && !strings.Contains(l, sub)) {
			continue
		}
		head, val := l[:sp], l[sp+1:]
		parts := strings.Split(head, "|")
		ml := metricLine{Name: parts[0], Tags: map[string]string{}, Val: val}
		for _, t := range parts[1:] {
			if i := strings.Index(t, "*"); i >= 0 {
				ml.Tags[t[:i]] = t[i+1:]
			}
		}
		out = append(out, ml)
	}
	return out
}

type histRead struct {
	Count, Kept uint64
	Pct         map[string]uint64 // statistic -> value
	Present     bool
}

func readHist(lines []metricLine, name string) histRead {
	h := histRead{Pct: map[string]uint64{}}
	for _, l := range lines {
		if l.Name != "hist_"+name {
			continue
		}
		st := l.Tags["statistic"]
		if st == "average" {
			continue
		}
		v, err := strconv.ParseUint(l.Val, 10, 64)
		if err != nil {
			continue
		}
		h.Present = true
		switch st {
		case "count":
			h.Count = v
		case "kept":
			h.Kept = v
		default:
			h.Pct[st] = v
		}
	}
	return h
}

func readBuckets(lines []metricLine, name string) (total uint64, per map[int]uint64) {
	per = map[int]uint64{}
	for _, l := range lines {
		if l.Name != "bhist_"+name {
			continue
		}
		v, _ := strconv.ParseUint(l.Val, 10, 64)
		total += v
		if t := l.Tags["percentile"]; len(t) == 5 {
			if idx, err := strconv.ParseInt(t[1:], 16, 32); err == nil && v > 0 {
				per[int(idx)] = v
			}
		}
	}
	return
}

// checkPeriod validates one histogram read against the multiset of the period.
func checkPeriod(h histRead, obs []uint64) string {
	if h.Count != uint64(len(obs)) {
		return "count differs from the number of observations"
	}
	if len(obs) == 0 {
		return ""
	}
	set := map[uint64]bool{}
	mn, mx := uint64(math.MaxUint64), uint64(0)
	for _, v := range obs {
		set[v] = true
		if v < mn {
			mn = v
		}
		if v > mx {
			mx = v
		}
	}
	if h.Pct["percentile0"] != mn {
		return "percentile0 is not the minimum observation"
	}
	if h.Pct["percentile100"] != mx {
		return "percentile100 is not the maximum observation"
	}
	if len(h.Pct) != 23 {
		return "not all 23 percentiles reported"
	}
	names := make([]string, 0, len(h.Pct))
	for k := range h.Pct {
		names = append(names, k)
	}
	sort.Strings(names)
	for _, k := range names {
		v := h.Pct[k]
		if v < mn || v > mx {
			return "a percentile lies outside [min, max]"
		}
		if !set[v] {
			return "a percentile is not one of the period's observations"
		}
	}
	return ""
}

func childC18(args []string) int {
	run, finish := childRun("C18", "exploration")
	rng := rand.New(rand.NewSource(run.Seed()*89 + 18))
	runtime.GC() // the endpoint indexes GC pauses [0]: make sure one GC has happened

	// ---- histogram periods opened by a burst of concurrent observers: the extremes of a period
	// are raced for by its very first observations
	announceCase("burst periods")
	{
		// one scrape costs ~0.1 s under the race detector, so each scrape closes a period of H
		// histograms, every one of them opened by its own barrier-released burst
		const G, H = 8, 64
		var hid [H]uint32
		for h := range hid {
			hid[h] = metrics.AddHistogram(fmt.Sprintf("verif_c18_burst%d", h), false, nil)
		}
		periods := run.Pick(50, 1200)
		var vals [H][G]uint64
		var gates [H]int32
		var wg sync.WaitGroup
		badPeriods := 0
		for pd := 0; pd < periods; pd++ {
			for h := 0; h < H; h++ {
				base := 1 + uint64(rng.Int63n(1<<40))
				for g := 0; g < G; g++ {
					vals[h][g] = base + uint64(g)*uint64(1+rng.Intn(1000))
				}
				rng.Shuffle(G, func(i, j int) { vals[h][i], vals[h][j] = vals[h][j], vals[h][i] })
				atomic.StoreInt32(&gates[h], 0)
			}
			for g := 0; g < G; g++ {
				wg.Add(1)
				go func(g int) {
					defer wg.Done()
					for h := 0; h < H; h++ {
						atomic.AddInt32(&gates[h], 1)
						for spins := 0; atomic.LoadInt32(&gates[h]) < G; spins++ {
							if spins > 20000 {
								runtime.Gosched() // more spinners than free processors
							}
						}
						metrics.ObserveHist(hid[h], vals[h][g])
					}
				}(g)
			}
			wg.Wait()
			lines := scrapeFiltered("verif_c18_burst")
			for h := 0; h < H; h++ {
				hr := readHist(lines, fmt.Sprintf("verif_c18_burst%d", h))
				if d := checkPeriod(hr, vals[h][:]); d != "" {
					if badPeriods == 0 {
						run.Violation("metrics|histogram|burst of concurrent observers opens the period|"+d, map[string]interface{}{
							"observations": append([]uint64(nil), vals[h][:]...), "reported": hr, "period": pd})
					}
					badPeriods++
				}
			}
		}
		run.Eval(1)
		run.Count("burst_periods_checked", int64(periods*H))
		run.Count("histogram_reads_checked", int64(periods*H))
		run.Distinct("hist|burst periods")
	}

	// ---- gauges registered at run time live in tables of their own: every counter that was
	// reported before is still reported, under its name, afterwards
	announceCase("gauges next to counters")
	{
		head := func(l metricLine) string {
			var ts []string
			for k, v := range l.Tags {
				ts = append(ts, k+"*"+v)
			}
			sort.Strings(ts)
			return l.Name + "|" + strings.Join(ts, "|")
		}
		early := []uint32{metrics.AddCounter("verif_c18_early_a", nil), metrics.AddCounter("verif_c18_early_b", metrics.Tags{"k": "v"})}
		metrics.IncCounterBy(early[0], 11)
		metrics.IncCounterBy(early[1], 22)
		before := map[string]uint64{}
		for _, l := range scrapeMetrics() {
			if l.Tags["type"] == "counter" {
				before[head(l)], _ = strconv.ParseUint(l.Val, 10, 64)
			}
		}
		ng := len(before) + 8
		if ng > 900 {
			ng = 900
		}
		gids := make([]uint32, ng)
		for i := range gids {
			gids[i] = metrics.AddIntGauge(fmt.Sprintf("verif_c18_gauge_%d", i), nil)
			metrics.SetIntGauge(gids[i], uint64(1000+i))
		}
		fg := metrics.AddFloatGauge("verif_c18_fgauge", nil)
		metrics.SetFloatGauge(fg, 2.5)
		after := map[string]uint64{}
		gaugesSeen := 0
		for _, l := range scrapeMetrics() {
			if l.Tags["type"] == "counter" {
				after[head(l)], _ = strconv.ParseUint(l.Val, 10, 64)
			}
			if strings.HasPrefix(l.Name, "verif_c18_gauge_") && l.Tags["type"] == "gauge" {
				var i int
				fmt.Sscanf(l.Name, "verif_c18_gauge_%d", &i)
				if v, _ := strconv.ParseUint(l.Val, 10, 64); v == uint64(1000+i) {
					gaugesSeen++
				}
			}
		}
		lost := []string{}
		for k, v := range before {
			if a, ok := after[k]; !ok || a < v {
				lost = append(lost, k)
			}
		}
		sort.Strings(lost)
		run.Eval(1)
		run.Count("counter_reads_checked", int64(len(before)))
		run.Count("gauges_registered", int64(ng+1))
		run.Distinct("counter|gauges registered next to them")
		if len(lost) > 0 {
			run.Violation("metrics|counter|after gauges were registered a counter is no longer reported under its name", map[string]interface{}{
				"counters_before": len(before), "lost": lost[:minInt(len(lost), 6)], "gauges_registered": ng})
		} else if gaugesSeen != ng {
			run.Violation("metrics|gauge|registered gauges are not all reported under their names with the values set", map[string]interface{}{"registered": ng, "reported": gaugesSeen})
		}
	}

	// ---- values with the top bit set: sums of IncCounterBy amounts, gauges and observations are uint64
	announceCase("wide values")
	{
		cid := metrics.AddCounter("verif_c18_wide", nil)
		var want uint64
		for i := 0; i < 3; i++ {
			metrics.IncCounterBy(cid, 1<<62)
			want += 1 << 62
		}
		for i := 0; i < 5; i++ {
			metrics.IncCounter(cid)
			want++
		}
		gid := metrics.AddIntGauge("verif_c18_widegauge", nil)
		gwant := uint64(1<<63 + 17)
		metrics.SetIntGauge(gid, gwant)
		hname := "verif_c18_widehist"
		hid := metrics.AddHistogram(hname, false, nil)
		obs := []uint64{77, 1 << 63, 1<<63 + 9, 1, 1<<64 - 1}
		for _, v := range obs {
			metrics.ObserveHist(hid, v)
		}
		lines := scrapeFiltered("verif_c18_wide")
		var cgot, ggot string
		for _, l := range lines {
			if l.Name == "verif_c18_wide" && l.Tags["type"] == "counter" {
				cgot = l.Val
			}
			if l.Name == "verif_c18_widegauge" {
				ggot = l.Val
			}
		}
		run.Eval(3)
		run.Count("counter_reads_checked", 1)
		run.Count("histogram_reads_checked", 1)
		run.Distinct("counter|sum above 2^63")
		run.Distinct("gauge|value above 2^63")
		run.Distinct("hist|observations above 2^63")
		if cgot != strconv.FormatUint(want, 10) {
			run.Violation("metrics|counter|a sum of increments with the top bit set is not reported as that sum", map[string]interface{}{"want": strconv.FormatUint(want, 10), "reported": cgot})
		}
		if ggot != strconv.FormatUint(gwant, 10) {
			run.Violation("metrics|gauge|a value with the top bit set is not reported as set", map[string]interface{}{"want": strconv.FormatUint(gwant, 10), "reported": ggot})
		}
		raw := map[string]string{}
		for _, l := range lines {
			if l.Name == "hist_"+hname && l.Tags["statistic"] != "average" {
				raw[l.Tags["statistic"]] = l.Val
			}
		}
		if d := checkPeriod(readHist(lines, hname), obs); d != "" {
			run.Violation("metrics|histogram|observations with the top bit set|"+d, map[string]interface{}{"observations": []string{"77", "2^63", "2^63+9", "1", "2^64-1"}, "reported": raw})
		}
	}

	// ---- a sampled histogram (every few observations kept): what is reported must still be observations of the period
	announceCase("sampled histogram")
	{
		hname := "verif_c18_sampled"
		hid := metrics.AddHistogram(hname, true, nil)
		for period := 0; period < 4; period++ {
			n := 400 + 37*period
			obs := make([]uint64, n)
			set := map[uint64]bool{}
			for i := range obs {
				obs[i] = uint64(50000*(period+1) + (i*7919)%1000)
				set[obs[i]] = true
				metrics.ObserveHist(hid, obs[i])
			}
			h := readHist(scrapeFiltered(hname), hname)
			run.Eval(1)
			run.Count("histogram_reads_checked", 1)
			run.Count("observations", int64(n))
			run.Distinct(fmt.Sprintf("hist|sampled|%d", period))
			bad := ""
			if h.Count != uint64(n) {
				bad = "count differs from the number of observations"
			} else {
				names := make([]string, 0, len(h.Pct))
				for k := range h.Pct {
					names = append(names, k)
				}
				sort.Strings(names)
				for _, k := range names {
					if !set[h.Pct[k]] {
						bad = "a percentile is not one of the period's observations"
						break
					}
				}
			}
			if bad != "" {
				run.Violation("metrics|histogram|sampled|"+bad, map[string]interface{}{"period": period, "n": n, "range": []int{50000 * (period + 1), 50000*(period+1) + 999}, "reported": h})
			}
		}
	}

	// ---- counters
	announceCase("counters")
	{
		const G = 16
		M := run.Pick(20000, 200000)
		ids := []uint32{metrics.AddCounter("verif_c18_a", nil), metrics.AddCounter("verif_c18_b", metrics.Tags{"x": "y"}), metrics.AddCounter("verif_c18_c", nil)}
		want := make([]uint64, len(ids))
		var mu sync.Mutex
		var wg sync.WaitGroup
		for g := 0; g < G; g++ {
			wg.Add(1)
			go func(g int) {
				defer wg.Done()
				r := rand.New(rand.NewSource(run.Seed() + int64(g)))
				local := make([]uint64, len(ids))
				for i := 0; i < M; i++ {
					k := r.Intn(len(ids))
					if r.Intn(3) == 0 {
						amt := uint64(r.Intn(1 << 20))
						metrics.IncCounterBy(ids[k], amt)
						local[k] += amt
					} else {
						metrics.IncCounter(ids[k])
						local[k]++
					}
				}
				mu.Lock()
				for i := range want {
					want[i] += local[i]
				}
				mu.Unlock()
			}(g)
		}
		// a scraper runs concurrently with the increments
		stop := make(chan struct{})
		var sg sync.WaitGroup
		sg.Add(1)
		go func() {
			defer sg.Done()
			for {
				select {
				case <-stop:
					return
				default:
					scrapeMetrics()
					time.Sleep(2 * time.Millisecond)
				}
			}
		}()
		wg.Wait()
		close(stop)
		sg.Wait()
		lines := scrapeMetrics()
		for i, n := range []string{"verif_c18_a", "verif_c18_b", "verif_c18_c"} {
			got := uint64(0)
			found := false
			for _, l := range lines {
				if l.Name == n {
					got, _ = strconv.ParseUint(l.Val, 10, 64)
					found = true
				}
			}
			run.Eval(1)
			run.Count("counter_reads_checked", 1)
			run.Distinct("counter|" + n)
			if !found || got != want[i] {
				run.Violation("metrics|counter|reported value differs from the sum of increments", map[string]interface{}{"counter": n, "reported": got, "expected": want[i], "goroutines": G})
			}
		}
		run.Sample(map[string]interface{}{"kind": "counters", "goroutines": G, "increments_each": M, "sums": want})
	}

	// ---- histograms, sequential periods
	sizes := []int{1, 2, 3, 19, 20, 21, 100, 1000, 32767, 32768, 32769, 40000}
	if run.Thorough() {
		sizes = append(sizes, 5, 7, 99, 101, 999, 1001, 5000, 32766)
	}
	mags := []uint64{10, 1000, 1 << 20, 1 << 40, 1<<63 - 1}
	for si, size := range sizes {
		name := fmt.Sprintf("verif_c18_h%d", si)
		id := metrics.AddHistogram(name, false, nil)
		for period := 0; period < 3; period++ {
			mag := mags[(si+period)%len(mags)]
			n := size
			if period == 1 && size > 3 && size < 30000 {
				n = size / 2 // a shorter period after a longer one: stale ring slots matter
			}
			obs := make([]uint64, n)
			for i := range obs {
				obs[i] = 1 + uint64(rng.Int63n(int64(mag)))
			}
			announceCase(fmt.Sprintf("histogram size=%d period=%d mag=%d", n, period, mag))
			for _, v := range obs {
				metrics.ObserveHist(id, v)
			}
			h := readHist(scrapeFiltered(name), name)
			run.Eval(1)
			run.Count("histogram_reads_checked", 1)
			run.Count("observations", int64(n))
			run.Distinct(fmt.Sprintf("hist|%d|%d|%d", n, mag, period))
			if si == 3 && period == 0 {
				run.Sample(map[string]interface{}{"kind": "histogram period", "observations": n, "magnitude": mag, "reported_count": h.Count, "p50": h.Pct["percentile50"]})
			}
			if d := checkPeriod(h, obs); d != "" {
				sz := "many"
				if n <= 3 {
					sz = fmt.Sprint(n)
				}
				run.Violation(fmt.Sprintf("metrics|histogram|period %d|%s observations|%s", period, sz, d), map[string]interface{}{
					"observations": obs[:minInt(len(obs), 8)], "n": n, "reported": h})
			}
		}
	}

	// ---- histograms, concurrent observers + scraper
	for trial := 0; trial < run.Pick(2, 6); trial++ {
		name := fmt.Sprintf("verif_c18_conc%d", trial)
		id := metrics.AddHistogram(name, false, nil)
		observers := []int{2, 8, 16}[trial%3]
		scrapers := []int{1, 3}[trial%2]
		per := run.Pick(80000, 400000)
		announceCase(fmt.Sprintf("concurrent histogram observers=%d scrapers=%d", observers, scrapers))
		all := map[uint64]bool{}
		var allMu sync.Mutex
		var sinceScrape int64
		var wg sync.WaitGroup
		for o := 0; o < observers; o++ {
			wg.Add(1)
			go func(o int) {
				defer wg.Done()
				r := rand.New(rand.NewSource(run.Seed()*7 + int64(o+trial*100)))
				local := make([]uint64, per/observers)
				for i := range local {
					local[i] = 1 + uint64(r.Int63n(1<<30))
				}
				allMu.Lock()
				for _, v := range local {
					all[v] = true
				}
				allMu.Unlock()
				for i, v := range local {
					// keep every reporting period well below the 32768-slot ring
					for atomic.LoadInt64(&sinceScrape) > 16000 {
						time.Sleep(200 * time.Microsecond)
					}
					atomic.AddInt64(&sinceScrape, 1)
					metrics.ObserveHist(id, v)
					if i%64 == 0 {
						runtime.Gosched()
					}
				}
			}(o)
		}
		var sumCounts uint64
		var bad string
		var badRead histRead
		done := make(chan struct{})
		go func() { wg.Wait(); close(done) }()
		var resMu sync.Mutex
		scrape := func() {
			h := readHist(scrapeFiltered(name), name)
			atomic.StoreInt64(&sinceScrape, 0)
			resMu.Lock()
			defer resMu.Unlock()
			sumCounts += h.Count
			if h.Count == 0 || bad != "" {
				return
			}
			mn, mx := h.Pct["percentile0"], h.Pct["percentile100"]
			allMu.Lock()
			for k, v := range h.Pct {
				if v < mn || v > mx {
					bad, badRead = "a percentile lies outside [min, max] ("+k+")", h
				} else if !all[v] {
					bad, badRead = "a percentile is not among the values observed ("+k+")", h
				}
			}
			allMu.Unlock()
			run.Count("concurrent_period_reads", 1)
		}
		var sw sync.WaitGroup
		for sc := 0; sc < scrapers; sc++ {
			sw.Add(1)
			go func() {
				defer sw.Done()
				for {
					select {
					case <-done:
						return
					default:
						scrape()
					}
				}
			}()
		}
		sw.Wait()
		scrape()
		total := uint64((per / observers) * observers)
		btotal, _ := readBuckets(scrapeFiltered(name), name)
		run.Eval(1)
		run.Distinct(fmt.Sprintf("conc|%d|%d|%d", observers, scrapers, trial))
		if bad != "" {
			run.Violation("metrics|histogram|concurrent|"+bad, map[string]interface{}{"observers": observers, "scrapers": scrapers, "read": badRead})
		}
		if sumCounts != total {
			run.Violation("metrics|histogram|concurrent|sum of period counts differs from the number of observations", map[string]interface{}{"sum": sumCounts, "observations": total})
		}
		if btotal != total {
			run.Violation("metrics|histogram|concurrent|sum of bucket counters differs from the number of observations", map[string]interface{}{"sum": btotal, "observations": total})
		}
	}

	// ---- overlapping /metrics requests while observers stay active: a scrape costs some 0.1 s,
	// so the observers are paced (instead of bursting and idling) and run until every scraper
	// has finished its share of requests
	for trial := 0; trial < run.Pick(1, 4); trial++ {
		name := fmt.Sprintf("verif_c18_overlap%d", trial)
		id := metrics.AddHistogram(name, false, nil)
		const observers, scrapers = 6, 3
		each := run.Pick(8, 30)
		announceCase(fmt.Sprintf("overlapping scrapes trial=%d", trial))
		all := map[uint64]bool{}
		var allMu, resMu sync.Mutex
		var sinceScrape, made int64
		var stop int32
		var wg sync.WaitGroup
		for o := 0; o < observers; o++ {
			wg.Add(1)
			go func(o int) {
				defer wg.Done()
				r := rand.New(rand.NewSource(run.Seed()*11 + int64(o+trial*100)))
				for atomic.LoadInt32(&stop) == 0 {
					v := 1 + uint64(r.Int63n(1<<30))
					allMu.Lock()
					all[v] = true
					allMu.Unlock()
					for atomic.LoadInt64(&sinceScrape) > 12000 && atomic.LoadInt32(&stop) == 0 {
						time.Sleep(200 * time.Microsecond)
					}
					atomic.AddInt64(&sinceScrape, 1)
					metrics.ObserveHist(id, v)
					atomic.AddInt64(&made, 1)
					if r.Intn(4) == 0 {
						time.Sleep(20 * time.Microsecond)
					}
				}
			}(o)
		}
		var sumCounts uint64
		var bad string
		var badRead histRead
		var sw sync.WaitGroup
		for sc := 0; sc < scrapers; sc++ {
			sw.Add(1)
			go func() {
				defer sw.Done()
				for i := 0; i < each; i++ {
					h := readHist(scrapeFiltered(name), name)
					atomic.StoreInt64(&sinceScrape, 0)
					resMu.Lock()
					sumCounts += h.Count
					if h.Count > 0 && bad == "" {
						mn, mx := h.Pct["percentile0"], h.Pct["percentile100"]
						allMu.Lock()
						for k, v := range h.Pct {
							if v < mn || v > mx {
								bad, badRead = "a percentile lies outside [min, max] ("+k+")", h
							} else if !all[v] {
								bad, badRead = "a percentile is not among the values observed ("+k+")", h
							}
						}
						allMu.Unlock()
					}
					resMu.Unlock()
					run.Count("overlapping_period_reads", 1)
				}
			}()
		}
		sw.Wait()
		atomic.StoreInt32(&stop, 1)
		wg.Wait()
		last := readHist(scrapeFiltered(name), name)
		sumCounts += last.Count
		total := uint64(atomic.LoadInt64(&made))
		btotal, _ := readBuckets(scrapeFiltered(name), name)
		run.Eval(1)
		run.Count("observations", int64(total))
		run.Distinct(fmt.Sprintf("overlap|%d", trial))
		if bad != "" {
			run.Violation("metrics|histogram|overlapping scrapes|"+bad, map[string]interface{}{"observers": observers, "scrapers": scrapers, "read": badRead})
		}
		if sumCounts != total {
			run.Violation("metrics|histogram|overlapping scrapes|sum of period counts differs from the number of observations", map[string]interface{}{"sum": sumCounts, "observations": total})
		}
		if btotal != total {
			run.Violation("metrics|histogram|overlapping scrapes|sum of bucket counters differs from the number of observations", map[string]interface{}{"sum": btotal, "observations": total})
		}
	}

	// ---- counters registered concurrently at run time: every handle is its own slot
	announceCase("concurrent registration")
	{
		const G, each = 8, 200
		ids := make([][]uint32, G)
		var gate int32
		var wg sync.WaitGroup
		for round := 0; round < each/25; round++ {
			atomic.StoreInt32(&gate, 0)
			for g := 0; g < G; g++ {
				wg.Add(1)
				go func(g int) {
					defer wg.Done()
					atomic.AddInt32(&gate, 1)
					for spins := 0; atomic.LoadInt32(&gate) < G; spins++ {
						if spins > 20000 {
							runtime.Gosched()
						}
					}
					for i := 0; i < 25; i++ {
						n := len(ids[g])
						var tags metrics.Tags
						if n%3 == 0 {
							tags = metrics.Tags{"g": fmt.Sprint(g)}
						}
						ids[g] = append(ids[g], metrics.AddCounter(fmt.Sprintf("verif_c18_reg_%d_%d", g, n), tags))
					}
				}(g)
			}
			wg.Wait()
		}
		seen := map[uint32]string{}
		dup := ""
		for g := 0; g < G; g++ {
			for n, id := range ids[g] {
				name := fmt.Sprintf("verif_c18_reg_%d_%d", g, n)
				if other, ok := seen[id]; ok && dup == "" {
					dup = other + " and " + name
				}
				seen[id] = name
				metrics.IncCounterBy(id, uint64(g*1000+n+1))
				metrics.IncCounter(id)
			}
		}
		got := map[string]uint64{}
		for _, l := range scrapeMetrics() {
			if strings.HasPrefix(l.Name, "verif_c18_reg_") {
				got[l.Name], _ = strconv.ParseUint(l.Val, 10, 64)
			}
		}
		bad := 0
		for g := 0; g < G; g++ {
			for n := range ids[g] {
				name := fmt.Sprintf("verif_c18_reg_%d_%d", g, n)
				if v, ok := got[name]; !ok || v != uint64(g*1000+n+2) {
					if bad == 0 {
						run.Violation("metrics|counter|counters registered concurrently: a counter reports a value that differs from its increments", map[string]interface{}{
							"counter": name, "reported": v, "present": ok, "expected": g*1000 + n + 2, "handles_shared_by": dup})
					}
					bad++
				}
			}
		}
		run.Eval(1)
		run.Count("counter_reads_checked", G*each)
		run.Count("counters_registered_concurrently", G*each)
		run.Distinct("counter|concurrent registration")
	}

	// ---- many counters: every registered counter is its own (the table holds 10240)
	announceCase("many counters")
	{
		const N = 6000
		ids := make([]uint32, N)
		for i := range ids {
			ids[i] = metrics.AddCounter(fmt.Sprintf("verif_c18_many_%d", i), nil)
		}
		var wg sync.WaitGroup
		for g := 0; g < 4; g++ {
			wg.Add(1)
			go func(g int) {
				defer wg.Done()
				for i := g; i < N; i += 4 {
					metrics.IncCounterBy(ids[i], uint64(i)*3+7)
					metrics.IncCounter(ids[i])
					metrics.IncCounter(ids[i])
				}
			}(g)
		}
		wg.Wait()
		got := map[string]uint64{}
		for _, l := range scrapeMetrics() {
			if strings.HasPrefix(l.Name, "verif_c18_many_") {
				got[l.Name], _ = strconv.ParseUint(l.Val, 10, 64)
			}
		}
		bad := 0
		for i := 0; i < N; i++ {
			if got[fmt.Sprintf("verif_c18_many_%d", i)] != uint64(i)*3+9 {
				if bad == 0 {
					run.Violation("metrics|counter|with thousands of counters registered a counter reports a value that differs from its increments", map[string]interface{}{
						"counter_index": i, "counter_id": ids[i], "reported": got[fmt.Sprintf("verif_c18_many_%d", i)], "expected": uint64(i)*3 + 9})
				}
				bad++
			}
		}
		run.Eval(1)
		run.Count("counter_reads_checked", N)
		run.Distinct("counter|many")
	}

	// ---- bucket index
	bounds := metrics.VerifBucketValues()
	var prevIdx uint64
	checked := int64(0)
	badBucket := func(v uint64, why string) {
		run.Violation("metrics|bucket|"+why, map[string]interface{}{"value": v, "index": metrics.VerifGetBucket(v)})
	}
	probe := func(v uint64) uint64 {
		idx := metrics.VerifGetBucket(v)
		checked++
		if idx >= uint64(len(bounds)) {
			badBucket(v, "bucket index outside the table")
			return idx
		}
		if v <= math.MaxInt64 && uint64(bounds[idx]) < v {
			badBucket(v, "upper bound of the bucket is below the value")
		}
		return idx
	}
	announceCase("bucket sweep 0..65536")
	for v := uint64(0); v <= 1<<16; v++ {
		idx := probe(v)
		if idx < prevIdx {
			badBucket(v, "bucket index decreases when the value increases")
		}
		prevIdx = idx
	}
	var pts []uint64
	for _, b := range bounds {
		for d := -2; d <= 2; d++ {
			if x := b + int64(d); x >= 0 {
				pts = append(pts, uint64(x))
			}
		}
	}
	for k := uint(0); k < 64; k++ {
		p := uint64(1) << k
		pts = append(pts, p-1, p, p+1)
	}
	nrand := run.Pick(3000, 100000)
	for k := uint(4); k < 64; k++ {
		for i := 0; i < nrand/60+1; i++ {
			pts = append(pts, (uint64(1)<<k)|(rng.Uint64()&((uint64(1)<<k)-1)))
		}
	}
	pts = append(pts, math.MaxInt64, math.MaxInt64-1, math.MaxUint64, 1<<63)
	sort.Slice(pts, func(i, j int) bool { return pts[i] < pts[j] })
	announceCase("bucket boundary and random sweep")
	prevIdx = 0
	for _, v := range pts {
		idx := probe(v)
		if idx < prevIdx {
			badBucket(v, "bucket index decreases when the value increases")
		}
		prevIdx = idx
	}
	run.Count("bucket_values_checked", checked)
	run.Eval(1)
	run.Distinct("buckets|sweep")
	run.Distinct("buckets|boundaries")

	// ---- bit count compiled for this platform (assembly on amd64)
	announceCase("lzcnt platform routine")
	lz := int64(0)
	chk := func(x uint64) {
		lz++
		if got, want := metrics.VerifLzcnt(x), uint64(bits.LeadingZeros64(x)); got != want {
			run.Violation("metrics|lzcnt|platform routine ("+runtime.GOARCH+") disagrees with the leading-zero count", map[string]interface{}{"input": x, "got": got, "want": want})
		}
	}
	for _, x := range lzInputs(rng, run.Pick(20000, 2000000)) {
		chk(x)
	}
	run.Count("lzcnt_inputs_checked", lz)
	run.Eval(1)
	run.Distinct("lzcnt|platform")
	return finish()
}

func lzInputs(rng *rand.Rand, nrand int) []uint64 {
	xs := []uint64{0, math.MaxUint64}
	for i := uint(0); i < 64; i++ {
		xs = append(xs, 1<<i, 1<<i-1, 1<<i+1, ^(uint64(1) << i))
		for j := uint(0); j < i; j++ {
			xs = append(xs, 1<<i|1<<j)
		}
	}
	for i := 0; i < nrand; i++ {
		xs = append(xs, rng.Uint64()>>uint(rng.Intn(64)))
	}
	return xs
}

// c18Portable compiles the portable lzcnt from a scratch copy of the repository file (its build
// constraint excludes it on amd64) and compares it with math/bits on the same input classes.
func c18Portable(run *evid.Run) {
	src, err := os.ReadFile(filepath.Join(harness.RepoDir, "metrics", "lzcnt.go"))
	if err != nil {
		run.Inconclusive("cannot read metrics/lzcnt.go: " + err.Error())
		return
	}
	dir := filepath.Join(harness.Scratch(), "lzportable")
	os.MkdirAll(dir, 0o755)
	var out []string
	for _, l := range strings.Split(string(src), "\n") {
		t := strings.TrimSpace(l)
		if strings.HasPrefix(t, "// +build") || strings.HasPrefix(t, "//go:build") {
			continue
		}
		if strings.HasPrefix(t, "package ") {
			l = "package main"
		}
		out = append(out, l)
	}
	os.WriteFile(filepath.Join(dir, "lzcnt.go"), []byte(strings.Join(out, "\n")), 0o644)
	os.WriteFile(filepath.Join(dir, "go.mod"), []byte("module lzportable\n\ngo 1.21\n"), 0o644)
	mainSrc := `package main

import (
	"fmt"
	"math/bits"
	"math/rand"
	"os"
	"strconv"
)

func main() {
	seed, _ := strconv.ParseInt(os.Args[1], 10, 64)
	n, _ := strconv.Atoi(os.Args[2])
	rng := rand.New(rand.NewSource(seed))
	xs := []uint64{0, ^uint64(0)}
	for i := uint(0); i < 64; i++ {
		xs = append(xs, 1<<i, 1<<i-1, 1<<i+1, ^(uint64(1) << i))
		for j := uint(0); j < i; j++ {
			xs = append(xs, 1<<i|1<<j)
		}
	}
	for i := 0; i < n; i++ {
		xs = append(xs, rng.Uint64()>>uint(rng.Intn(64)))
	}
	bad := 0
	for _, x := range xs {
		if got, want := lzcnt(x), uint64(bits.LeadingZeros64(x)); got != want {
			if bad < 5 {
				fmt.Printf("MISMATCH input=%d got=%d want=%d\n", x, got, want)
			}
			bad++
		}
	}
	fmt.Printf("CHECKED %d BAD %d\n", len(xs), bad)
}
`
	os.WriteFile(filepath.Join(dir, "main.go"), []byte(mainSrc), 0o644)
	cmd := exec.Command("go", "run", ".", fmt.Sprint(run.Seed()), fmt.Sprint(run.Pick(20000, 2000000)))
	cmd.Dir = dir
	cmd.Env = append(os.Environ(), "GOFLAGS=-mod=mod", "GOPROXY=off", "GOTOOLCHAIN=local", "GOWORK=off")
	b, err := cmd.CombinedOutput()
	s := string(b)
	run.Eval(1)
	run.Distinct("lzcnt|portable")
	if err != nil || !strings.Contains(s, "CHECKED") {
		run.Inconclusive("portable lzcnt harness failed: " + lastLines(s, 5))
		return
	}
	var n, bad int
	for _, l := range strings.Split(s, "\n") {
		if strings.HasPrefix(l, "CHECKED") {
			fmt.Sscanf(l, "CHECKED %d BAD %d", &n, &bad)
		}
	}
	run.Count("lzcnt_inputs_checked", int64(n))
	if bad > 0 {
		first := ""
		for _, l := range strings.Split(s, "\n") {
			if strings.HasPrefix(l, "MISMATCH") {
				first = l
				break
			}
		}
		kind := "some input"
		if strings.Contains(first, "input=0 ") {
			kind = "input 0"
		}
		run.Violation("metrics|lzcnt|portable routine disagrees with the leading-zero count (and so with the assembly routine) on "+kind,
			map[string]interface{}{"mismatches": bad, "first": first})
	}
}
