package main

import (
	"bytes"
	"fmt"
	"math/rand"
	"sort"

	"verif/evid"
	"verif/harness"
	"verif/wire"
)

func init() { checks["C02"] = checkC02 }

// inclusionDiff checks "every key present in L1 is present in L2 with the same value and
// flags" on the two fake stores (nothing is in flight: the driver is closed-loop).
func inclusionDiff(p *harness.Proxy) string {
	l1 := p.L1.Snapshot()
	l2 := p.L2.Snapshot()
	keys := make([]string, 0, len(l1))
	for k := range l1 {
		keys = append(keys, k)
	}
	sort.Strings(keys)
	for _, k := range keys {
		e1 := l1[k]
		e2, ok := l2[k]
		if !ok {
			return "L1 holds a key that L2 lacks"
		}
		if !bytes.Equal(e1.Value, e2.Value) {
			return "L1 value differs from L2 value"
		}
		if e1.Flags != e2.Flags {
			return "L1 flags differ from L2 flags"
		}
	}
	return ""
}

// evictionPlan decides, per command position, which L1 keys are discarded before the command.
type evictionPlan struct {
	Mode string     `json:"mode"`
	At   [][]string `json:"at"`
}

func makeEvictionPlan(rng *rand.Rand, n int, keys []string) evictionPlan {
	mode := []string{"none", "one", "all", "random", "every"}[rng.Intn(5)]
	pl := evictionPlan{Mode: mode, At: make([][]string, n)}
	for i := 0; i < n; i++ {
		switch mode {
		case "one":
			if rng.Intn(3) == 0 {
				pl.At[i] = []string{keys[rng.Intn(len(keys))]}
			}
		case "all":
			if rng.Intn(4) == 0 {
				pl.At[i] = append([]string(nil), keys...)
			}
		case "random":
			for _, k := range keys {
				if rng.Intn(3) == 0 {
					pl.At[i] = append(pl.At[i], k)
				}
			}
		case "every":
			pl.At[i] = append([]string(nil), keys...)
		}
	}
	return pl
}

func checkC02(tier, replay string) int {
	run := evid.NewRun("C02", tier, "exploration")
	run.Rule("closed-loop command sequences (TTL 0) on L1/L2 shapes of the real memproxy (plain L1 unlocked / locked; chunking L1: replies only), each run with a seeded L1 eviction plan " +
		"(none / one key / all keys / random subset / all keys before every command); every reply is compared with the reference map " +
		"(which knows nothing about tiers), and after every command the two fake stores are compared: L1 subset of L2 with equal value and flags. " +
		"distinct_nontrivial = distinct (configuration, protocol, port mode, eviction mode, op-kind sequence) with a key touched twice")
	run.Assume("evictions happen only between commands, as the statement says")
	nseq := run.Pick(40, 300)
	var cfgs []harness.ProxyCfg
	for _, lock := range []string{"none", "mr", "sr"} {
		cfgs = append(cfgs, harness.ProxyCfg{L2: true, L1Kind: "std", Locked: lock != "none", MultiReader: lock == "mr"})
	}
	// a chunking L1 (answers an append on a key it does not hold with 'not found' where plain
	// memcached says 'not stored'): replies only, its raw entries are not comparable with L2's
	cfgs = append(cfgs, harness.ProxyCfg{L2: true, L1Kind: "chunked"}, harness.ProxyCfg{L2: true, L1Kind: "chunked", Locked: true})
	ops := []string{"set", "set", "add", "replace", "append", "prepend", "delete", "touch", "get", "get", "mget", "mget", "gat", "gat", "setq"}
	proxyPool(run, cfgs, 8, func(p *harness.Proxy, restart func() *harness.Proxy) {
		cfg := p.Cfg
		for _, binary := range []bool{false, true} {
			for _, pm := range portModes(true) {
				g := newGen(run.Seed()*7000003 + int64(hashStr(cfg.Name()+protoName(binary)+pm.Name)))
				for i := 0; i < nseq; i++ {
					keys := keyAlphabet(cfg.L1Kind)
					o := genOpts{Binary: binary, Keys: keys, MinLen: 8, MaxLen: 30, TTLs: []string{"0"}, T0: p.L1.T0(),
						AllowGat: true, AllowQuiet: true, AllowMulti: true, Ports: pm.Ports, ValueLens: []int{0, 1, 50, 2000}, Ops: ops}
					cmds := g.sequence(o)
					plan := makeEvictionPlan(g.rng, len(cmds), keys)
					what := fmt.Sprintf("%s|%s|%s|evict-%s", cfg.Name(), protoName(binary), pm.Name, plan.Mode)
					evicted := 0
					hooks := func(pl evictionPlan, count bool) seqHooks {
						return seqHooks{
							before: func(s *session, i int, c wire.Cmd) {
								if i < len(pl.At) && len(pl.At[i]) > 0 {
									before := len(p.L1.Snapshot())
									for _, k := range pl.At[i] {
										evictClientKey(p, k)
									}
									if count {
										evicted += before - len(p.L1.Snapshot())
									}
								}
							},
							after: func(s *session, i int, c wire.Cmd, obs wire.Result) string {
								if cfg.L1Kind != "std" {
									return ""
								}
								return inclusionDiff(p)
							},
						}
					}
					run.Eval(1)
					run.Count("commands", int64(len(cmds)))
					run.Count("inclusion_checks", int64(len(cmds)))
					out := runSeq(p, binary, cmds, hooks(plan, true))
					run.Count("l1_entries_evicted", int64(evicted))
					if hasCollision(cmds) {
						run.Distinct(what + "|" + kindSeq(cmds))
					}
					if i == 0 && pm.Name == "alternating" {
						run.Sample(map[string]interface{}{"config": what, "commands": shortCmds(cmds, 10), "evictions": plan.At[:minInt(10, len(plan.At))]})
					}
					if out.Err != nil {
						handleExecError(run, p, what, out, map[string]interface{}{"config": cfg, "commands": cmds, "evictions": plan})
						if p = restart(); p == nil {
							return
						}
						continue
					}
					if out.FailIdx >= 0 {
						// keep the eviction plan aligned with the original positions: shrink only by
						// truncation and by dropping commands together with their eviction slot.
						reportC02(run, p, what, binary, cmds, plan, out, hooks)
					}
				}
			}
		}
	})
	run.Floor("inclusion_checks", 500)
	run.Floor("l1_entries_evicted", 20)
	return run.Finish()
}

func minInt(a, b int) int {
	if a < b {
		return a
	}
	return b
}

func reportC02(run *evid.Run, p *harness.Proxy, what string, binary bool, cmds []wire.Cmd, plan evictionPlan,
	out seqOutcome, hooks func(evictionPlan, bool) seqHooks) {
	want := out.Diff
	curC := append([]wire.Cmd(nil), cmds[:out.FailIdx+1]...)
	curP := evictionPlan{Mode: plan.Mode, At: append([][]string(nil), plan.At[:out.FailIdx+1]...)}
	budget := 100
	changed := true
	for changed && budget > 0 {
		changed = false
		for i := len(curC) - 2; i >= 0 && budget > 0; i-- {
			cc := append(append([]wire.Cmd(nil), curC[:i]...), curC[i+1:]...)
			// the eviction that preceded the dropped command now precedes its successor
			pp := evictionPlan{Mode: curP.Mode}
			for j := range curP.At {
				if j == i {
					continue
				}
				a := curP.At[j]
				if j == i+1 {
					a = append(append([]string(nil), curP.At[i]...), a...)
				}
				pp.At = append(pp.At, a)
			}
			budget--
			o := runSeq(p, binary, cc, hooks(pp, false))
			if o.Err == nil && o.Diff == want {
				curC, curP = cc, pp
				changed = true
			}
		}
	}
	final := runSeq(p, binary, curC, hooks(curP, false))
	ev := ""
	for i, a := range curP.At {
		if len(a) > 0 {
			ev += fmt.Sprintf(" evict-before-%d", i)
		}
	}
	sig := fmt.Sprintf("%s|%s|%s|%s", what, kindSeqLens(curC), ev, want)
	run.Violation(sig, map[string]interface{}{
		"config": p.Cfg, "protocol": protoName(binary), "commands": curC, "evictions": curP.At,
		"trace": tail(final.Trace, 12), "l1": storeBrief(p, 1), "l2": storeBrief(p, 2),
	})
}
