package main

import (
	"fmt"
	"time"

	"github.com/netflix/rend/common"
	"github.com/netflix/rend/handlers"

	"verif/model"
	"verif/wire"
)

// errClass maps a handler error to the outcome classes of the model.
func errClass(err error) string {
	switch err {
	case nil:
		return model.OK
	case common.ErrKeyNotFound:
		return model.NotFound
	case common.ErrKeyExists:
		return model.Exists
	case common.ErrItemNotStored:
		return model.NotStored
	}
	return "err:" + err.Error()
}

// keyBytes returns the key as a slice with the requested spare capacity (the binary parser
// produces cap == len, the text parser's []byte(string) conversion leaves spare capacity).
func keyBytes(k string, spare int) []byte {
	b := make([]byte, len(k), len(k)+spare)
	copy(b, k)
	return b
}

// keyArena hands out the keys of one command as sub-slices of ONE buffer (what a parser that
// slices its line buffer would produce): every key is followed by guard bytes and its
// capacity reaches over the guard and the following keys. A handler that appends to a key
// slice in place overwrites guard bytes or the next key; check() notices.
type keyArena struct {
	buf  []byte
	orig []byte
}

func newKeyArena(keys []string, spare int) (*keyArena, [][]byte) {
	a := &keyArena{}
	var offs []int
	for _, k := range keys {
		offs = append(offs, len(a.buf))
		a.buf = append(a.buf, k...)
		for i := 0; i < spare; i++ {
			a.buf = append(a.buf, 0xA5)
		}
	}
	a.buf = append(a.buf, 0xA5, 0xA5, 0xA5, 0xA5, 0xA5, 0xA5, 0xA5, 0xA5)
	a.orig = append([]byte(nil), a.buf...)
	out := make([][]byte, len(keys))
	for i, k := range keys {
		if spare == 0 {
			out[i] = a.buf[offs[i] : offs[i]+len(k) : offs[i]+len(k)]
		} else {
			out[i] = a.buf[offs[i] : offs[i]+len(k)]
		}
	}
	return a, out
}

func (a *keyArena) check() string {
	if string(a.buf) != string(a.orig) {
		return "the handler wrote into the caller's memory behind a key slice"
	}
	return ""
}

// drainGet reads both channels of a handler Get the way the orchestrators do.
func drainGet(resChan <-chan common.GetResponse, errChan <-chan error) ([]common.GetResponse, error) {
	return drainGetSlow(resChan, errChan, 0)
}

// drainGetSlow pauses after the first response (a slow client).
func drainGetSlow(resChan <-chan common.GetResponse, errChan <-chan error, pause time.Duration) ([]common.GetResponse, error) {
	var out []common.GetResponse
	var err error
	for resChan != nil || errChan != nil {
		select {
		case r, ok := <-resChan:
			if !ok {
				resChan = nil
			} else {
				out = append(out, r)
				if len(out) == 1 && pause > 0 {
					time.Sleep(pause)
				}
			}
		case e, ok := <-errChan:
			if !ok {
				errChan = nil
			} else {
				err = e
			}
		}
	}
	return out, err
}

func drainGetE(resChan <-chan common.GetEResponse, errChan <-chan error) ([]common.GetEResponse, error) {
	var out []common.GetEResponse
	var err error
	for resChan != nil || errChan != nil {
		select {
		case r, ok := <-resChan:
			if !ok {
				resChan = nil
			} else {
				out = append(out, r)
			}
		case e, ok := <-errChan:
			if !ok {
				errChan = nil
			} else {
				err = e
			}
		}
	}
	return out, err
}

// handlerExec applies one command to a handler and reduces the outcome to a wire.Result that
// can be compared with expected(model, c, true). spare = spare capacity of key slices.
func handlerExec(h handlers.Handler, c wire.Cmd, spare int) wire.Result {
	done := make(chan wire.Result, 1)
	go func() { done <- handlerExecRaw(h, c, spare) }()
	select {
	case r := <-done:
		return r
	case <-time.After(handlerWatchdog):
		// the fake backends answer every request they receive at once, so a handler call that
		// is still out after this long waits for something that will never come
		return wire.Result{Class: "hang", Info: "handler call did not return within " + handlerWatchdog.String()}
	}
}

// handlerWatchdog bounds a single in-process handler call (gated schedules bound themselves).
var handlerWatchdog = 20 * time.Second

func handlerExecRaw(h handlers.Handler, c wire.Cmd, spare int) (res wire.Result) {
	names := c.Keys
	if !c.IsGet() {
		names = []string{c.Key}
	}
	arena, akeys := newKeyArena(names, spare)
	keyOf := func(i int) []byte { return akeys[i] }
	defer func() {
		if d := arena.check(); d != "" {
			res.Anomalies = append(res.Anomalies, d)
		}
	}()
	defer func() {
		if r := recover(); r != nil {
			res = wire.Result{Class: fmt.Sprintf("panic:%v", r)}
		}
	}()
	switch c.Op {
	case "set", "add", "replace", "append", "prepend":
		req := common.SetRequest{Key: keyOf(0), Data: append([]byte(nil), c.Value...), Flags: c.Flags, Exptime: c.TTL, Opaque: c.Opaque, Quiet: c.QuietSet}
		var err error
		switch c.Op {
		case "set":
			err = h.Set(req)
		case "add":
			err = h.Add(req)
		case "replace":
			err = h.Replace(req)
		case "append":
			err = h.Append(req)
		case "prepend":
			err = h.Prepend(req)
		}
		res.Class = errClass(err)
	case "delete":
		res.Class = errClass(h.Delete(common.DeleteRequest{Key: keyOf(0), Opaque: c.Opaque}))
	case "touch":
		res.Class = errClass(h.Touch(common.TouchRequest{Key: keyOf(0), Exptime: c.TTL, Opaque: c.Opaque}))
	case "gat":
		r, err := h.GAT(common.GATRequest{Key: keyOf(0), Exptime: c.TTL, Opaque: c.Opaque})
		if err != nil {
			res.Class = errClass(err)
			break
		}
		if r.Miss {
			res.Class = model.NotFound
			break
		}
		res.Class = model.OK
		if string(r.Key) != c.Key {
			res.Anomalies = append(res.Anomalies, "gat response carries another key")
		}
		if r.Opaque != c.Opaque {
			res.Anomalies = append(res.Anomalies, "gat response carries another opaque")
		}
		res.Values = []wire.Val{{Key: string(r.Key), Flags: r.Flags, Data: r.Data}}
	case "get", "gete":
		req := common.GetRequest{NoopEnd: c.NoopEnd, NoopOpaque: c.Opaque + uint32(len(c.Keys))}
		for i, k := range c.Keys {
			_ = k
			req.Keys = append(req.Keys, keyOf(i))
			if c.SameOpaque {
				req.Opaques = append(req.Opaques, c.Opaque)
			} else {
				req.Opaques = append(req.Opaques, c.Opaque+uint32(i))
			}
			req.Quiet = append(req.Quiet, (c.NoopEnd || i != len(c.Keys)-1) && !c.NonQuiet)
		}
		type one struct {
			key    string
			opaque uint32
			quiet  bool
			miss   bool
			flags  uint32
			data   []byte
			exp    uint32
		}
		var got []one
		var err error
		if c.Op == "get" {
			var rs []common.GetResponse
			rc, ec := h.Get(req)
			rs, err = drainGetSlow(rc, ec, time.Duration(c.ConsumerPauseMs)*time.Millisecond)
			for _, r := range rs {
				got = append(got, one{string(r.Key), r.Opaque, r.Quiet, r.Miss, r.Flags, r.Data, 0})
			}
		} else {
			var rs []common.GetEResponse
			rc, ec := h.GetE(req)
			rs, err = drainGetE(rc, ec)
			for _, r := range rs {
				got = append(got, one{string(r.Key), r.Opaque, r.Quiet, r.Miss, r.Flags, r.Data, r.Exptime})
			}
		}
		if err != nil {
			res.Class = errClass(err)
			break
		}
		res.Class = model.OK
		res.Terminators = 1
		seen := make([]int, len(c.Keys))
		if c.SameOpaque {
			// responses can only be attributed by key: each key must be answered as often as asked
			asked, answered := map[string]int{}, map[string]int{}
			for _, k := range c.Keys {
				asked[k]++
			}
			for _, g := range got {
				answered[g.key]++
				if g.opaque != c.Opaque {
					res.Anomalies = append(res.Anomalies, "get response with an opaque that was not requested")
				}
				if _, ok := asked[g.key]; !ok {
					res.Anomalies = append(res.Anomalies, "get response for a key that was not requested")
					continue
				}
				if g.miss {
					res.Misses++
					continue
				}
				res.Values = append(res.Values, wire.Val{Key: g.key, Flags: g.flags, Data: g.data, Exptime: g.exp})
			}
			for _, k := range c.Keys {
				if answered[k] != asked[k] {
					res.Anomalies = append(res.Anomalies, fmt.Sprintf("%d responses for a key requested %d times", answered[k], asked[k]))
					break
				}
			}
			got = nil
			for i := range seen {
				seen[i] = 1
			}
		}
		for _, g := range got {
			idx := int(g.opaque - c.Opaque)
			if idx < 0 || idx >= len(c.Keys) {
				res.Anomalies = append(res.Anomalies, "get response with an opaque that was not requested")
				continue
			}
			seen[idx]++
			if g.key != c.Keys[idx] {
				res.Anomalies = append(res.Anomalies, "get response key does not match the key requested with that opaque")
			}
			if g.quiet != req.Quiet[idx] {
				res.Anomalies = append(res.Anomalies, "get response quiet flag differs from the request")
			}
			if g.miss {
				if !req.Quiet[idx] {
					res.Misses++
				}
				continue
			}
			res.Values = append(res.Values, wire.Val{Key: g.key, Flags: g.flags, Data: g.data, Exptime: g.exp})
		}
		for i, n := range seen {
			if n != 1 {
				res.Anomalies = append(res.Anomalies, fmt.Sprintf("%d responses for requested key index %d", n, i))
			}
		}
	default:
		res.Class = "raw"
	}
	res.SortValues()
	return res
}
