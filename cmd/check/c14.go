package main

import (
	"fmt"
	"math/rand"
	"net/http"
	"sync"
	"sync/atomic"
	"time"

	"verif/evid"
	"verif/harness"
	"verif/model"
	"verif/wire"
)

func init() {
	checks["C14"] = checkC14
	children["C14pool"] = childC14Pool
}

// childC14Pool drives the batching pool through connection loss and recovery (the workload
// of C13) only to let the race detector watch the pool's recovery path; outcomes are C13's.
func childC14Pool(args []string) int {
	run, finish := childRun("C14", "exploration")
	n := run.Pick(24, 200)
	cuts := []string{"before", "after", "mid", "repeated", "idle", "outage"}
	var wg sync.WaitGroup
	sem := make(chan struct{}, 8)
	for i := 0; i < n; i++ {
		cs := c13Case{Pool: []int{1, 2, 4}[i%3], Callers: []int{4, 8, 32}[i%3], Mix: []string{"single", "mget-nonquiet", "mixed"}[i%3],
			Cut: cuts[i%len(cuts)], J: i % 4, Bytes: []int{1, 24, 25, 40}[i%4], Batch: []int{2, 10}[i%2]}
		wg.Add(1)
		sem <- struct{}{}
		go func(i int, cs c13Case) {
			defer wg.Done()
			defer func() { <-sem }()
			announceCase("pool recovery " + cs.String())
			v := c13RunCase(cs, run.Seed()*7+int64(i))
			run.Count("pool_recovery_cases", 1)
			run.Count("pool_cuts_fired", v.Cuts)
			run.Count("pool_operations", v.Ops)
		}(i, cs)
	}
	wg.Wait()
	return finish()
}

// c14Conn runs one connection's private workload; returns a description of the first mismatch.
func c14Conn(p *harness.Proxy, binary bool, port int, conn int, ncmd int, seed int64, ops *int64, errShare int) (string, map[string]interface{}) {
	cl, err := p.Dial(port, binary)
	if err != nil {
		return "cannot connect", map[string]interface{}{"error": err.Error()}
	}
	defer cl.Close()
	cl.Watchdog = 60 * time.Second
	rng := rand.New(rand.NewSource(seed))
	m := model.New(p.L1.Now)
	ns := fmt.Sprintf("c%d.", conn)
	keys := []string{ns + "a", ns + "b", ns + "c", ns + "d"}
	id := uint32(conn+1) << 18
	opaque := uint32(conn+1) << 20
	var lens []int
	if p.Cfg.L1Kind == "chunked" {
		lens = []int{0, 10, chunkPayload(len(keys[0])) + 3, 3 * chunkPayload(len(keys[0]))}
	} else {
		lens = []int{0, 10, 200, 3000}
	}
	var trace []traceEntry
	for i := 0; i < ncmd; i++ {
		k := keys[rng.Intn(len(keys))]
		opaque += 8
		c := wire.Cmd{Key: k, Opaque: opaque}
		live := m.Live(k) != nil
		r := rng.Intn(100)
		if errShare > 40 {
			// rescale so that the failing forms take errShare percent
			if rng.Intn(100) < errShare {
				r = 0
			} else {
				r = 40 + rng.Intn(60)
			}
		}
		switch {
		case r < 40:
			// error replies with bodies from the backend: the failing form for the key's state
			if live {
				c.Op, c.Value = "add", makeValue(id, lens[rng.Intn(len(lens))])
			} else {
				c.Op = []string{"replace", "delete", "touch", "append", "prepend", "replace", "append"}[rng.Intn(7)]
				c.Value = makeValue(id, 10)
				c.TTL = 0
			}
			id++
		case r < 60:
			c.Op, c.Value, c.Flags = "set", makeValue(id, lens[rng.Intn(len(lens))]), rng.Uint32()
			id++
		case r < 70:
			c.Op = []string{"delete", "touch", "append", "replace"}[rng.Intn(4)]
			c.Value = makeValue(id, 10)
			id++
		case r < 85:
			c = wire.Cmd{Op: "get", Keys: []string{k}, Opaque: opaque}
		case r < 95:
			c = wire.Cmd{Op: "get", Opaque: opaque, NoopEnd: binary && rng.Intn(2) == 0}
			n := 2 + rng.Intn(4)
			for j := 0; j < n; j++ {
				c.Keys = append(c.Keys, keys[rng.Intn(len(keys))])
			}
			opaque += uint32(n)
		default:
			if binary {
				c.Op, c.TTL = "gat", 0
			} else {
				c = wire.Cmd{Op: "get", Keys: []string{k}, Opaque: opaque}
			}
		}
		if (c.Op == "append" || c.Op == "prepend") && !binary {
			c.Flags = 0
		}
		exp := expected(m, c, binary)
		obs, err := cl.Do(c)
		atomic.AddInt64(ops, 1)
		if err != nil {
			return "connection failed: " + canonAnomaly(err.Error()), map[string]interface{}{"command": c.Short(), "trace": tail(trace, 6)}
		}
		d := diffResult(c, exp, obs, binary)
		trace = append(trace, traceEntry{Cmd: c.Short(), Expected: brief(exp), Observed: brief(obs), Diff: d})
		if len(trace) > 8 {
			trace = trace[1:]
		}
		if d != "" {
			return d, map[string]interface{}{"connection": conn, "command": c.Short(), "trace": trace}
		}
	}
	return "", nil
}

func checkC14(tier, replay string) int {
	run := evid.NewRun("C14", tier, "exploration")
	run.Rule("memproxy built with -race (GORACE halt_on_error=0, log_path) serves 2..64 concurrent connections, each running a seeded random command sequence on PRIVATE keys with a mix weighted towards error replies with bodies from the backend; " +
		"(a) every connection's replies are compared with its own reference model (exactly what it would observe alone), (b) every race-detector report with a frame in rend is a violation, de-duplicated by the pair of innermost rend functions; " +
		"/metrics is scraped concurrently; the workload is repeated because race reports vary from run to run. " +
		"distinct_nontrivial = distinct (configuration, protocol, connections, repeat) runs; evidence lists commands executed and race reports seen")
	run.Assume("the race detector only sees races on executed paths within its history window; histogram rings are kept below their 32768-slot wrap by scraping")
	type shape struct {
		cfg      harness.ProxyCfg
		binary   bool
		conns    int
		errShare int
	}
	var shapes []shape
	if run.Thorough() {
		for _, kind := range []string{"std", "chunked", "batched"} {
			for _, l2 := range []bool{false, true} {
				for _, lock := range []string{"none", "mr", "sr"} {
					for _, binary := range []bool{true, false} {
						shapes = append(shapes, shape{harness.ProxyCfg{L2: l2, L1Kind: kind, Locked: lock != "none", MultiReader: lock == "mr", Race: true}, binary, []int{2, 8, 32, 64}[len(shapes)%4], []int{40, 80}[len(shapes)%2]})
					}
				}
			}
		}
	} else {
		shapes = []shape{
			{harness.ProxyCfg{L2: true, L1Kind: "std", Race: true}, true, 16, 40},
			{harness.ProxyCfg{L1Kind: "std", Race: true}, false, 48, 85},
			{harness.ProxyCfg{L1Kind: "chunked", Race: true}, false, 48, 85},
			{harness.ProxyCfg{L2: true, L1Kind: "chunked", Locked: true, Race: true}, false, 8, 40},
			{harness.ProxyCfg{L2: true, L1Kind: "std", Locked: true, MultiReader: true, Race: true}, true, 32, 40},
			{harness.ProxyCfg{L1Kind: "batched", Race: true}, true, 16, 40},
			{harness.ProxyCfg{L2: true, L1Kind: "batched", Race: true}, false, 8, 40},
			{harness.ProxyCfg{L2: true, L1Kind: "std", Locked: true, Race: true}, false, 32, 85},
		}
	}
	ncmd := run.Pick(250, 800)
	repeats := run.Pick(2, 3)
	var scrapeMu sync.Mutex
	sem := make(chan struct{}, 4)
	var wg sync.WaitGroup
	for si, sh := range shapes {
		for rep := 0; rep < repeats; rep++ {
			wg.Add(1)
			sem <- struct{}{}
			go func(si int, sh shape, rep int) {
				defer wg.Done()
				defer func() { <-sem }()
				p, err := harness.StartProxy(sh.cfg)
				if err != nil {
					run.Inconclusive("cannot start memproxy -race: " + err.Error())
					return
				}
				what := fmt.Sprintf("%s|%s|%d connections", sh.cfg.Name(), protoName(sh.binary), sh.conns)
				var ops int64
				var cwg sync.WaitGroup
				stop := make(chan struct{})
				// concurrent /metrics scraper (only if the fixed debug port belongs to this child)
				owns := p.OwnsDebugPort()
				var scrapes int64
				if owns {
					go func() {
						for {
							select {
							case <-stop:
								return
							default:
							}
							scrapeMu.Lock()
							if resp, err := http.Get("http://localhost:11299/metrics"); err == nil {
								resp.Body.Close()
								atomic.AddInt64(&scrapes, 1)
							}
							scrapeMu.Unlock()
							time.Sleep(30 * time.Millisecond)
						}
					}()
				}
				type fail struct {
					d string
					w map[string]interface{}
				}
				fails := make(chan fail, sh.conns)
				for c := 0; c < sh.conns; c++ {
					cwg.Add(1)
					go func(c int) {
						defer cwg.Done()
						port := 0
						if sh.cfg.L2 && c%4 == 3 {
							port = 1
						}
						d, w := c14Conn(p, sh.binary, port, c, ncmd, run.Seed()*5000011+int64(si*100000+rep*1000+c), &ops, sh.errShare)
						if d != "" {
							fails <- fail{d, w}
						}
					}(c)
				}
				cwg.Wait()
				close(stop)
				close(fails)
				run.Eval(1)
				run.Count("commands", atomic.LoadInt64(&ops))
				run.Count("metrics_scrapes", atomic.LoadInt64(&scrapes))
				run.Distinct(fmt.Sprintf("%s|rep%d", what, rep))
				if si == 0 && rep == 0 {
					run.Sample(map[string]interface{}{"config": what, "commands_per_connection": ncmd, "commands_executed": atomic.LoadInt64(&ops), "metrics_scrapes": atomic.LoadInt64(&scrapes)})
				}
				for f := range fails {
					f.w["config"] = sh.cfg
					if !p.Alive() {
						f.w["stderr_tail"] = lastLines(p.Stderr(), 60)
						run.Violation(what+"|server process exited: "+crashKind(p.Stderr()), f.w)
					} else {
						run.Violation(what+"|a connection's replies differ from what it observes alone: "+f.d, f.w)
					}
				}
				alive := p.Alive()
				p.StopKeep()
				reports := parseRaces(p.RaceReports() + "\n" + p.Stderr())
				run.Count("race_reports", int64(len(reports)))
				for _, r := range reports {
					if r.InRend {
						run.Violation("data race: "+r.Pair, map[string]interface{}{"config": sh.cfg, "protocol": protoName(sh.binary), "connections": sh.conns, "report": r.Text})
					} else {
						run.Count("race_reports_without_rend_frame", 1)
					}
				}
				if !alive && len(fails) == 0 {
					run.Violation(what+"|server process exited: "+crashKind(p.Stderr()), map[string]interface{}{"stderr_tail": lastLines(p.Stderr(), 60)})
				}
				p.Stop()
			}(si, sh, rep)
		}
	}
	wg.Wait()
	// the pool's recovery path needs connection loss: library-level workload of C13 under -race
	res := spawnChild(run, "C14pool", 20*time.Minute, nil)
	run.Eval(1)
	run.Distinct("pool-recovery")
	if res.TimedOut {
		run.Inconclusive("pool recovery workload did not finish")
	} else if res.Crashed || res.ExitCode != 0 {
		run.Violation("batched pool|process terminated: "+crashKind(res.Stderr), map[string]interface{}{"last_case": res.LastCase, "stderr_tail": lastLines(res.Stderr, 60)})
	}
	for _, r := range parseRaces(res.Stderr) {
		run.Count("race_reports", 1)
		if r.InRend {
			run.Violation("data race: "+r.Pair, map[string]interface{}{"workload": "batching pool under connection loss", "report": r.Text})
		}
	}
	run.Floor("commands", 5000)
	run.Floor("pool_cuts_fired", 10)
	return run.Finish()
}
