package main

import (
	"bufio"
	"bytes"
	"fmt"
	"io"
	"math/rand"
	"reflect"
	"time"

	"github.com/netflix/rend/common"
	"github.com/netflix/rend/protocol"
	"github.com/netflix/rend/protocol/binprot"
	"github.com/netflix/rend/protocol/textprot"

	"verif/evid"
	"verif/harness"
	"verif/wire"
)

func init() {
	checks["C07"] = checkC07
	children["C07"] = childC07
}

func checkC07(tier, replay string) int {
	run := evid.NewRun("C07", tier, "exploration")
	run.Rule("wire-encoded pipelines of 1-12 well-formed requests (every supported command of both protocols, keys 1..250 bytes - arbitrary bytes in binary -, data 0..64KiB rich in CR/LF/0x80, boundary flags/TTL/opaque values) " +
		"are parsed by rend's real parsers from a segmenting reader under many cut plans (whole, byte-by-byte, every single cut offset for short pipelines, cuts at field boundaries, random 2-cuts); " +
		"after every Parse the decoded struct is compared field by field with the intent and consumed bytes (delivered - buffered) with the encoded length; at the end nothing is buffered and Parse returns EOF. " +
		"Protocol choice is observed end-to-end on memproxy for first-byte-only / bytewise / whole segmentations. " +
		"distinct_nontrivial = distinct (request-shape sequence, cut plan kind)")
	res := spawnChild(run, "C07", 25*time.Minute, nil)
	if res.Crashed || res.TimedOut {
		if res.TimedOut {
			run.Inconclusive("C07 child did not finish; last case: " + res.LastCase)
		} else {
			run.Violation("parser|process crashed|"+crashKind(res.Stderr), map[string]interface{}{"last_case": res.LastCase, "stderr_tail": lastLines(res.Stderr, 60)})
		}
	}
	c07ProtocolChoice(run)
	run.Floor("parses_checked", 5000)
	run.Floor("protocol_choice_connections", 6)
	return run.Finish()
}

// segReader hands out a byte stream according to a cut plan and counts what it delivered.
type segReader struct {
	data      []byte
	cuts      []int // ascending offsets at which a Read must end
	pos       int
	bytewise  bool
	delivered int
	reads     int
}

func (s *segReader) Read(p []byte) (int, error) {
	s.reads++
	if s.pos >= len(s.data) {
		return 0, io.EOF
	}
	end := len(s.data)
	if s.bytewise {
		end = s.pos + 1
	} else {
		for _, c := range s.cuts {
			if c > s.pos {
				if c < end {
					end = c
				}
				break
			}
		}
	}
	n := copy(p, s.data[s.pos:end])
	s.pos += n
	s.delivered += n
	return n, nil
}

// c07Intent generates a well-formed request.
func c07Intent(rng *rand.Rand, binary bool, opaque *uint32) wire.Cmd {
	key := func() string {
		var n int
		switch rng.Intn(6) {
		case 0:
			n = 1
		case 1:
			n = 250
		case 2:
			n = 249
		default:
			n = 1 + rng.Intn(40)
		}
		b := make([]byte, n)
		for i := range b {
			if binary {
				switch rng.Intn(8) {
				case 0:
					b[i] = []byte{0x00, 0x80, '\r', '\n', ' ', 0xFF, 0x81}[rng.Intn(7)]
				default:
					b[i] = byte(rng.Intn(256))
				}
			} else {
				b[i] = byte(0x21 + rng.Intn(0x7E-0x21+1))
			}
		}
		return string(b)
	}
	data := func() []byte {
		lens := []int{0, 1, 2, 23, 24, 25, 100, 4095, 4096, 4097, 65535, 65536}
		n := lens[rng.Intn(len(lens))]
		if rng.Intn(3) == 0 {
			n = rng.Intn(300)
		}
		b := make([]byte, n)
		for i := range b {
			switch rng.Intn(4) {
			case 0:
				b[i] = []byte{'\r', '\n', 0x80, 0x81, 0x00, ' '}[rng.Intn(6)]
			default:
				b[i] = byte(rng.Intn(256))
			}
		}
		return b
	}
	u32 := func() uint32 {
		return []uint32{0, 1, 1<<31 - 1, 1 << 31, 1<<32 - 1, rng.Uint32(), rng.Uint32()}[rng.Intn(7)]
	}
	*opaque += 64
	c := wire.Cmd{}
	if binary {
		c.Opaque = u32()
	}
	ops := []string{"set", "add", "replace", "append", "prepend", "get", "mget", "delete", "touch", "noop", "version", "stats"}
	if binary {
		ops = append(ops, "gat", "gete", "mgete", "setq", "mget")
	}
	switch op := ops[rng.Intn(len(ops))]; op {
	case "set", "add", "replace":
		c.Op, c.Key, c.Value, c.Flags, c.TTL = op, key(), data(), u32(), u32()
	case "setq":
		c.Op = []string{"set", "add", "replace", "append", "prepend"}[rng.Intn(5)]
		c.QuietSet = true
		c.Key, c.Value = key(), data()
		if c.Op != "append" && c.Op != "prepend" {
			c.Flags, c.TTL = u32(), u32()
		}
	case "append", "prepend":
		c.Op, c.Key, c.Value = op, key(), data()
		if !binary {
			c.Flags, c.TTL = u32(), u32()
		}
	case "get":
		c.Op, c.Keys = "get", []string{key()}
	case "gete":
		c.Op, c.Keys = "gete", []string{key()}
	case "mget", "mgete":
		c.Op = "get"
		if op == "mgete" {
			c.Op = "gete"
		}
		n := 2 + rng.Intn(5)
		if rng.Intn(6) == 0 {
			// many keys: text command lines far longer than one buffer, long quiet batches
			n = []int{17, 40, 100}[rng.Intn(3)]
		}
		for i := 0; i < n; i++ {
			c.Keys = append(c.Keys, key())
		}
		if binary {
			c.NoopEnd = rng.Intn(2) == 0
			if c.Opaque > 1<<32-16 {
				c.Opaque -= 64
			}
		}
	case "delete":
		c.Op, c.Key = op, key()
	case "touch", "gat":
		c.Op, c.Key, c.TTL = op, key(), u32()
	default:
		c.Op = op
	}
	return c
}

// decodedDiff compares the parser's output with the intent.
func decodedDiff(c wire.Cmd, binary bool, req common.Request, typ common.RequestType) string {
	wantType := map[string]common.RequestType{
		"set": common.RequestSet, "add": common.RequestAdd, "replace": common.RequestReplace, "append": common.RequestAppend,
		"prepend": common.RequestPrepend, "get": common.RequestGet, "gete": common.RequestGetE, "gat": common.RequestGat,
		"delete": common.RequestDelete, "touch": common.RequestTouch, "noop": common.RequestNoop, "version": common.RequestVersion,
		"stats": common.RequestStat, "quit": common.RequestQuit,
	}[c.Op]
	if typ != wantType {
		return "request type differs"
	}
	opq := c.Opaque
	if !binary {
		opq = 0
	}
	switch c.Op {
	case "set", "add", "replace", "append", "prepend":
		r, ok := req.(common.SetRequest)
		if !ok {
			return "request struct of the wrong kind"
		}
		if string(r.Key) != c.Key {
			return "key differs"
		}
		if !bytes.Equal(r.Data, c.Value) {
			return "data differs"
		}
		if r.Opaque != opq {
			return "opaque differs"
		}
		if r.Quiet != (c.QuietSet && binary) {
			return "quiet flag differs"
		}
		if c.Op != "append" && c.Op != "prepend" {
			if r.Flags != c.Flags {
				return "flags differ"
			}
			if r.Exptime != c.TTL {
				return "exptime differs"
			}
		}
	case "get", "gete":
		r, ok := req.(common.GetRequest)
		if !ok {
			return "request struct of the wrong kind"
		}
		if len(r.Keys) != len(c.Keys) || len(r.Opaques) != len(c.Keys) || len(r.Quiet) != len(c.Keys) {
			return "number of keys / opaques / quiet flags differs"
		}
		for i, k := range c.Keys {
			if string(r.Keys[i]) != k {
				return "batch key differs"
			}
			wo, wq := uint32(0), false
			if binary {
				wo = c.Opaque + uint32(i)
				wq = c.NoopEnd || i != len(c.Keys)-1
			}
			if r.Opaques[i] != wo {
				return "batch opaque differs"
			}
			if r.Quiet[i] != wq {
				return "batch quiet flag differs"
			}
		}
		if r.NoopEnd != (c.NoopEnd && binary) {
			return "noop-end marker differs"
		}
		if c.NoopEnd && binary && r.NoopOpaque != c.Opaque+uint32(len(c.Keys)) {
			return "noop opaque differs"
		}
	case "gat":
		r, ok := req.(common.GATRequest)
		if !ok || string(r.Key) != c.Key || r.Exptime != c.TTL || r.Opaque != opq {
			return "gat fields differ"
		}
	case "touch":
		r, ok := req.(common.TouchRequest)
		if !ok || string(r.Key) != c.Key || r.Exptime != c.TTL || r.Opaque != opq {
			return "touch fields differ"
		}
	case "delete":
		r, ok := req.(common.DeleteRequest)
		if !ok || string(r.Key) != c.Key || r.Opaque != opq {
			return "delete fields differ"
		}
	case "noop":
		r, ok := req.(common.NoopRequest)
		if !ok || r.Opaque != opq {
			return "noop fields differ"
		}
	case "version":
		r, ok := req.(common.VersionRequest)
		if !ok || r.Opaque != opq {
			return "version fields differ"
		}
	case "stats":
		r, ok := req.(common.StatRequest)
		if !ok || r.Opaque != opq {
			return "stat fields differ"
		}
	case "quit":
		r, ok := req.(common.QuitRequest)
		if !ok || r.Opaque != opq {
			return "quit fields differ"
		}
	}
	return ""
}

type cutPlan struct {
	Kind     string
	Cuts     []int
	Bytewise bool
}

// parsePipeline parses an encoded pipeline under a cut plan; returns "" or what differed.
func parsePipeline(binary bool, cmds []wire.Cmd, enc [][]byte, stream []byte, pl cutPlan) (diff string, at int, parses int) {
	sr := &segReader{data: stream, cuts: pl.Cuts, bytewise: pl.Bytewise}
	br := bufio.NewReader(sr)
	var parser protocol.RequestParser
	if binary {
		parser = binprot.NewBinaryParser(br)
	} else {
		parser = textprot.NewTextParser(br)
	}
	cum := 0
	for i, c := range cmds {
		req, typ, _, err := parser.Parse()
		parses++
		if err != nil {
			return "parse error on a well-formed request: " + canonAnomaly(err.Error()), i, parses
		}
		if d := decodedDiff(c, binary, req, typ); d != "" {
			return d, i, parses
		}
		cum += len(enc[i])
		if consumed := sr.delivered - br.Buffered(); consumed != cum {
			if consumed > cum {
				return "parser consumed more bytes than the request's length", i, parses
			}
			return "parser consumed fewer bytes than the request's length", i, parses
		}
	}
	if br.Buffered() != 0 {
		return "bytes left in the buffer after the last request", len(cmds), parses
	}
	_, _, _, err := parser.Parse()
	if err != io.EOF {
		return "parse after the end of the stream does not report EOF", len(cmds), parses
	}
	return "", -1, parses
}

func childC07(args []string) int {
	run, finish := childRun("C07", "exploration")
	npipe := run.Pick(400, 4000)
	for _, binary := range []bool{true, false} {
		rng := rand.New(rand.NewSource(run.Seed()*977 + int64(len(protoName(binary)))))
		var opaque uint32 = 100
		for pi := 0; pi < npipe; pi++ {
			n := 1 + rng.Intn(12)
			var cmds []wire.Cmd
			var enc [][]byte
			var stream []byte
			var bounds []int // field boundaries
			for i := 0; i < n; i++ {
				c := c07Intent(rng, binary, &opaque)
				var e []byte
				if binary {
					e = wire.EncodeBinary(c)
				} else {
					e = wire.EncodeText(c)
				}
				base := len(stream)
				bounds = append(bounds, base, base+24, base+28, base+32, base+len(e)-2, base+len(e)-1)
				if binary && c.Key != "" {
					bounds = append(bounds, base+len(e)-len(c.Value), base+len(e)-len(c.Value)-len(c.Key))
				}
				cmds = append(cmds, c)
				enc = append(enc, e)
				stream = append(stream, e...)
			}
			if rng.Intn(4) == 0 {
				// close the pipeline with quit (nothing follows it on a real connection)
				q := wire.Cmd{Op: "quit", Opaque: rng.Uint32()}
				var e []byte
				if binary {
					e = wire.EncodeBinary(q)
				} else {
					e = wire.EncodeText(q)
				}
				cmds, enc, stream = append(cmds, q), append(enc, e), append(stream, e...)
			}
			plans := []cutPlan{{Kind: "whole"}, {Kind: "bytewise", Bytewise: true}}
			if len(stream) <= 600 || (run.Thorough() && len(stream) <= 1500 && pi%10 == 0) {
				for off := 1; off < len(stream); off++ {
					plans = append(plans, cutPlan{Kind: "single-cut", Cuts: []int{off}})
				}
			} else {
				for _, b := range bounds {
					for d := -1; d <= 1; d++ {
						if o := b + d; o > 0 && o < len(stream) {
							plans = append(plans, cutPlan{Kind: "boundary-cut", Cuts: []int{o}})
						}
					}
				}
			}
			for k := 0; k < 20; k++ {
				a, b := 1+rng.Intn(len(stream)), 1+rng.Intn(len(stream))
				if a > b {
					a, b = b, a
				}
				plans = append(plans, cutPlan{Kind: "two-cuts", Cuts: []int{a, b}})
			}
			if len(stream) > 4096 {
				plans = append(plans, cutPlan{Kind: "4096-blocks", Cuts: blockCuts(len(stream), 4096)}, cutPlan{Kind: "1460-blocks", Cuts: blockCuts(len(stream), 1460)})
			}
			if len(stream) > 70000 && !run.Thorough() {
				plans = plans[:len(plans)/2] // bytewise over big streams dominates; keep quick quick
			}
			announceCase(fmt.Sprintf("%s pipeline #%d: %s (%d bytes, %d cut plans)", protoName(binary), pi, kindSeq(cmds), len(stream), len(plans)))
			shape := protoName(binary) + "|" + shapeSeq(cmds)
			for _, pl := range plans {
				if pl.Bytewise && len(stream) > 200000 {
					continue
				}
				diff, at, parses := parsePipeline(binary, cmds, enc, stream, pl)
				run.Eval(1)
				run.Count("parses_checked", int64(parses))
				run.Distinct(shape + "|" + pl.Kind)
				run.SetAdd("cut_plan_kinds", pl.Kind)
				if diff != "" {
					what := "end"
					if at >= 0 && at < len(cmds) {
						what = cmds[at].Op
						if cmds[at].QuietSet {
							what += "q"
						}
					}
					run.Violation(fmt.Sprintf("parser|%s|%s|%s|%s", protoName(binary), what, pl.Kind, diff), map[string]interface{}{
						"protocol": protoName(binary), "pipeline": shortCmds(cmds, 12), "failing_request_index": at, "cut_plan": pl,
						"stream_len": len(stream), "stream_head_hex": fmt.Sprintf("%x", stream[:minInt(len(stream), 96)]),
					})
					break
				}
			}
			if pi == 1 {
				run.Sample(map[string]interface{}{"protocol": protoName(binary), "pipeline": shortCmds(cmds, 8), "stream_bytes": len(stream), "cut_plans": len(plans)})
			}
		}
	}
	_ = reflect.DeepEqual
	return finish()
}

func blockCuts(n, b int) []int {
	var out []int
	for o := b; o < n; o += b {
		out = append(out, o)
	}
	return out
}

func shapeSeq(cmds []wire.Cmd) string {
	s := ""
	for _, c := range cmds {
		s += c.Op
		if c.QuietSet {
			s += "q"
		}
		if c.IsGet() {
			s += fmt.Sprint(len(c.Keys))
			if c.NoopEnd {
				s += "n"
			}
		}
		s += lenClass(len(c.Value)) + ","
	}
	return s
}

// c07ProtocolChoice observes on the real server that the first byte selects the protocol.
func c07ProtocolChoice(run *evid.Run) {
	p, err := harness.StartProxy(harness.ProxyCfg{L1Kind: "std"})
	if err != nil {
		run.Inconclusive("cannot start memproxy: " + err.Error())
		return
	}
	defer p.Stop()
	type tc struct {
		binary bool
		seg    string
	}
	for _, t := range []tc{{true, "whole"}, {true, "first-byte-then-rest"}, {true, "bytewise"}, {false, "whole"}, {false, "first-byte-then-rest"}, {false, "bytewise"}} {
		for _, op := range []string{"noop", "version", "get"} {
			cl, err := p.Dial(0, t.binary)
			if err != nil {
				run.Inconclusive("dial: " + err.Error())
				return
			}
			c := wire.Cmd{Op: op, Opaque: 0x51515151}
			if op == "get" {
				c.Keys = []string{"zz"}
			}
			b := cl.Encode(c)
			switch t.seg {
			case "whole":
				cl.Send(b)
			case "first-byte-then-rest":
				cl.Send(b[:1])
				time.Sleep(30 * time.Millisecond)
				cl.Send(b[1:])
			case "bytewise":
				for i := range b {
					cl.Send(b[i : i+1])
					if i < 3 {
						time.Sleep(5 * time.Millisecond)
					}
				}
			}
			cl.Conn.SetReadDeadline(time.Now().Add(15 * time.Second))
			first, err := cl.R.Peek(1)
			run.Eval(1)
			run.Count("protocol_choice_connections", 1)
			run.Distinct(fmt.Sprintf("choice|%v|%s|%s", t.binary, t.seg, op))
			sig := fmt.Sprintf("listen|%s|%s|%s", protoName(t.binary), t.seg, op)
			if err != nil {
				run.Violation(sig+"|no reply", map[string]interface{}{"request_hex": fmt.Sprintf("%x", b), "error": err.Error()})
			} else if t.binary && first[0] != 0x81 {
				run.Violation(sig+"|connection starting with 0x80 not answered in the binary protocol", map[string]interface{}{"first_reply_byte": first[0]})
			} else if !t.binary && (first[0] == 0x81 || first[0] < 0x20) {
				run.Violation(sig+"|connection starting with a lowercase letter not answered in the text protocol", map[string]interface{}{"first_reply_byte": first[0]})
			} else {
				// the reply must decode strictly in the chosen protocol
				if t.binary {
					f, err := wire.ReadFrame(cl.R)
					if err != nil || f.Opaque != c.Opaque {
						run.Violation(sig+"|reply does not decode as the request's binary reply", map[string]interface{}{"frame": f.String()})
					}
				} else {
					it, err := wire.ReadItem(cl.R)
					if err != nil || it.BareLF {
						run.Violation(sig+"|reply does not decode as a text reply", map[string]interface{}{"item": it.String()})
					}
				}
			}
			cl.Close()
		}
	}
}
