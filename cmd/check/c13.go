package main

import (
	"fmt"
	"math/rand"
	"os"
	"path/filepath"
	"sort"
	"strings"
	"sync"
	"sync/atomic"
	"time"

	"github.com/netflix/rend/handlers/memcached/batched"

	"verif/evid"
	"verif/fakemc"
	"verif/harness"
	"verif/wire"
)

func init() {
	checks["C13"] = checkC13
	children["C13"] = childC13
}

func checkC13(tier, replay string) int {
	run := evid.NewRun("C13", tier, "fault_enumeration")
	run.Rule("batched.NewHandler over a fake backend on a unix socket; pooled connections are cut at planned positions: idle, before / after processing / inside the reply (1, 24, 25, mid-value bytes) of the j-th request of a burst (j = 0..9), " +
		"every k-th request repeatedly, a listener outage with all connections cut, an outage longer than the reconnect loop's whole back-off schedule (16 s and more), " +
		"multi-gets naming one key several times (same opaque, as the text protocol produces) cut between the copies, and a double cut (first attempt before any reply, retry after j replies) under a consumer that pauses after the first value; pool sizes 1, 2, 4; 1..32 concurrent callers with private keys and unique values; single commands, non-quiet (text-style) and quiet multi-key gets. " +
		"Monitors: every call returns exactly one outcome (watchdog + state: backend listening again), outcomes and reads are judged by a per-caller possible-state model (an error is only acceptable if a cut happened while the call was in flight; " +
		"a retried write may have applied once or twice), multi-gets must deliver exactly the requested (key, opaque) multiset unless an error is signalled, the process must stay alive, " +
		"and once the pool has re-established all its connections a fresh round per caller must be exact. Race detector on (reports are judged by C14). " +
		"distinct_nontrivial = distinct (pool size, callers, mix, cut position, cut kind)")
	run.Assume("which of the batcher's reads of its connection lands on the old or the new socket is up to the OS scheduler")
	res := spawnChild(run, "C13", 40*time.Minute, nil)
	if res.TimedOut {
		run.Violation("batched|a call never returns although the backend accepts connections again|", map[string]interface{}{"last_case": res.LastCase, "goroutines": lastLines(filterDump(res.Stderr), 80)})
	} else if res.Crashed || res.ExitCode != 0 {
		run.Violation("batched|process terminated: "+crashKind(res.Stderr), map[string]interface{}{"last_case": res.LastCase, "stderr_tail": lastLines(res.Stderr, 60)})
	}
	races := parseRaces(res.Stderr)
	run.Count("race_reports_seen_(judged_by_C14)", int64(len(races)))
	for _, r := range races {
		run.SetAdd("race_pairs_seen", r.Pair)
	}
	run.Floor("cut_cases", 50)
	run.Floor("cuts_fired", 50)
	return run.Finish()
}

type c13Case struct {
	Pool    int    `json:"pool"`
	Callers int    `json:"callers"`
	Mix     string `json:"mix"`   // single | mget-nonquiet | mget-quiet | mixed
	Cut     string `json:"cut"`   // idle | before | after | mid | repeated | outage | long-outage (Bytes = seconds) | double
	J       int    `json:"j"`     // burst position of the request that is cut
	Bytes   int    `json:"bytes"` // reply bytes sent before the cut (mid)
	Batch   int    `json:"batch_size"`
}

func (c c13Case) String() string {
	return fmt.Sprintf("pool=%d callers=%d batch=%d mix=%s cut=%s j=%d bytes=%d", c.Pool, c.Callers, c.Batch, c.Mix, c.Cut, c.J, c.Bytes)
}

// cmodel is the per-caller possible-state model of C13 (the backend is the truth here, so a
// miss is only acceptable if "absent" is a possible state).
type cmodel struct {
	states map[string][]pstate
}

func (m *cmodel) get(k string) []pstate {
	if s, ok := m.states[k]; ok {
		return s
	}
	return []pstate{{}}
}

// outcome folds the observed class of a mutation into the possible states.
// tainted: a cut happened while the call was in flight (the request may have been applied by a
// lost attempt as well as by the retry).
func (m *cmodel) outcome(c wire.Cmd, class string, tainted bool) string {
	cur := m.get(c.Key)
	var next []pstate
	isErr := strings.HasPrefix(class, "err:")
	for _, s := range cur {
		once := applyOne(s, c)
		twice := applyOne(once, c)
		var expect string
		switch c.Op {
		case "set":
			expect = "ok"
		case "add":
			expect = map[bool]string{true: "exists", false: "ok"}[s.present]
		case "replace":
			expect = map[bool]string{true: "ok", false: "notfound"}[s.present]
		case "append", "prepend":
			expect = map[bool]string{true: "ok", false: "notstored"}[s.present]
		case "delete":
			expect = map[bool]string{true: "ok", false: "notfound"}[s.present]
		case "touch":
			expect = map[bool]string{true: "ok", false: "notfound"}[s.present]
		}
		switch {
		case isErr:
			next = append(next, s, once, twice)
		case class == expect:
			next = append(next, once)
			if tainted {
				next = append(next, twice)
			}
		case tainted:
			// a lost first attempt may have applied; the retry then reports the outcome for
			// the state the first attempt produced
			var expect2 string
			switch c.Op {
			case "add":
				expect2 = "exists"
			case "delete", "replace", "touch":
				expect2 = map[bool]string{true: "ok", false: "notfound"}[once.present]
			case "append", "prepend":
				expect2 = map[bool]string{true: "ok", false: "notstored"}[once.present]
			default:
				expect2 = "ok"
			}
			if class == expect2 {
				next = append(next, once, twice)
			}
		}
	}
	if len(next) == 0 {
		return fmt.Sprintf("outcome %s is impossible for every state the key may be in", classKind(class))
	}
	m.states[c.Key] = dedup(next)
	return ""
}

func (m *cmodel) read(k string, hit bool, v wire.Val) string {
	cur := m.get(k)
	var next []pstate
	for _, s := range cur {
		if !hit && !s.present {
			next = append(next, s)
		}
		if hit && s.present && s.value == string(v.Data) && s.flags == v.Flags {
			next = append(next, s)
		}
	}
	if len(next) == 0 {
		if hit {
			if !strings.HasPrefix(string(v.Data), "<") {
				return "a read returns bytes that are not one of the caller's values"
			}
			return "a read returns a value the key cannot hold"
		}
		return "a read misses although the key must be present"
	}
	m.states[k] = next
	return ""
}

type c13Env struct {
	dir     string
	sock    string
	st      *fakemc.Store
	srv     *fakemc.Server
	opts    batched.Opts
	cuts    int64
	lastCut int64
	armed   int32
}

var c13Seq int64

func newC13Env(cs c13Case) (*c13Env, error) {
	n := atomic.AddInt64(&c13Seq, 1)
	e := &c13Env{dir: filepath.Join(harness.Scratch(), fmt.Sprintf("c13-%d-%d", os.Getpid(), n))}
	os.MkdirAll(e.dir, 0o755)
	e.sock = filepath.Join(e.dir, "b.sock")
	e.st = fakemc.NewStore("pool")
	var err error
	if e.srv, err = fakemc.Listen(e.st, "unix", e.sock); err != nil {
		return nil, err
	}
	e.opts = batched.Opts{BatchSize: uint32(cs.Batch), BatchDelayMicros: 300, EvaluationIntervalSec: 3600}
	_ = batched.NewHandler(e.sock, e.opts)
	for batched.VerifPoolSize(e.sock) < cs.Pool {
		if !batched.VerifAddConn(e.sock) {
			return nil, fmt.Errorf("no pool")
		}
	}
	return e, nil
}

func (e *c13Env) noteCut() {
	atomic.StoreInt64(&e.lastCut, time.Now().UnixNano())
	atomic.AddInt64(&e.cuts, 1)
}

// waitPool waits until the pool has pool-size connections open at the backend.
func (e *c13Env) waitPool(n int, max time.Duration) bool {
	deadline := time.Now().Add(max)
	for time.Now().Before(deadline) {
		if e.st.OpenConns() >= n {
			return true
		}
		time.Sleep(time.Millisecond)
	}
	return false
}

type c13Verdict struct {
	Bad     string
	Witness map[string]interface{}
	Inconcl string
	Cuts    int64
	Tainted int64
	Errors  int64
	Ops     int64
}

func c13RunCase(cs c13Case, seed int64) c13Verdict {
	v := c13Verdict{Witness: map[string]interface{}{"case": cs}}
	e, err := newC13Env(cs)
	if err != nil {
		v.Inconcl = err.Error()
		return v
	}
	if !e.waitPool(cs.Pool, 10*time.Second) {
		v.Inconcl = "pool did not connect"
		return v
	}
	type caller struct {
		h  batched.Handler
		m  *cmodel
		ns string
		id uint32
	}
	callers := make([]*caller, cs.Callers)
	for i := range callers {
		callers[i] = &caller{h: batched.NewHandler(e.sock, e.opts), m: &cmodel{states: map[string][]pstate{}}, ns: fmt.Sprintf("p%d.", i), id: uint32(i+1) << 16}
	}
	var badMu sync.Mutex
	setBad := func(s string, w map[string]interface{}) {
		badMu.Lock()
		if v.Bad == "" {
			v.Bad = s
			for k, x := range w {
				v.Witness[k] = x
			}
		}
		badMu.Unlock()
	}
	recovering := func() bool { return e.st.OpenConns() < cs.Pool }
	// one operation of a caller, judged
	doOp := func(c *caller, cmd wire.Cmd) {
		before := atomic.LoadInt64(&e.cuts)
		// a cut shortly before the call may still be unnoticed by the pool: count it as in flight
		recent := time.Now().UnixNano()-atomic.LoadInt64(&e.lastCut) < int64(400*time.Millisecond)
		recBefore := recovering()
		obs := handlerExec(c.h, cmd, 0)
		tainted := atomic.LoadInt64(&e.cuts) != before || recBefore || recovering() || recent
		atomic.AddInt64(&v.Ops, 1)
		if tainted {
			atomic.AddInt64(&v.Tainted, 1)
		}
		w := map[string]interface{}{"command": cmd.Short(), "observed": brief(obs), "cut_in_flight": tainted}
		if strings.HasPrefix(obs.Class, "panic:") {
			setBad("handler panicked", w)
			return
		}
		if strings.HasPrefix(obs.Class, "err:") {
			atomic.AddInt64(&v.Errors, 1)
			if !tainted {
				setBad("a call fails although no connection was lost while it was in flight", w)
				return
			}
		}
		if cmd.IsGet() {
			if strings.HasPrefix(obs.Class, "err:") {
				return // an error is signalled: partial answers are allowed
			}
			if len(obs.Anomalies) > 0 {
				setBad("multi-key get presented as complete: "+canonAnomaly(obs.Anomalies[0]), w)
				return
			}
			// every requested key produced exactly one response (anomalies above); judge values
			hits := map[string]wire.Val{}
			for _, val := range obs.Values {
				hits[val.Key] = val
			}
			for _, k := range cmd.Keys {
				val, hit := hits[k]
				if hit && cmd.Op == "gete" && cs.Mix == "gete-ttl" && (val.Exptime == 0 || val.Exptime > 5000) {
					w["key"] = k
					w["exptime"] = val.Exptime
					setBad("gete reports no remaining lifetime for a value stored with a TTL of 5000 s", w)
					return
				}
				if d := c.m.read(k, hit, val); d != "" {
					w["key"] = k
					setBad(d, w)
					return
				}
			}
			return
		}
		if cmd.Op == "gat" {
			if strings.HasPrefix(obs.Class, "err:") {
				return
			}
			var val wire.Val
			if len(obs.Values) == 1 {
				val = obs.Values[0]
			}
			if d := c.m.read(cmd.Key, len(obs.Values) == 1, val); d != "" {
				setBad(d, w)
			}
			return
		}
		if d := c.m.outcome(cmd, obs.Class, tainted); d != "" {
			setBad(d, w)
		}
	}
	genOp := func(c *caller, r *rand.Rand) wire.Cmd {
		k := c.ns + fmt.Sprint(r.Intn(3))
		c.id++
		val := makeValue(c.id, []int{0, 8, 120, 4000}[r.Intn(4)])
		if cs.Mix == "empty-values" {
			// empty values with non-zero flags, read often: a reply cut inside its extras has no
			// body whose read would notice the broken connection
			val = nil
			if r.Intn(3) > 0 {
				if r.Intn(2) == 0 {
					return wire.Cmd{Op: "gat", Key: k, Opaque: r.Uint32()}
				}
				return wire.Cmd{Op: "get", Keys: []string{k}, Opaque: r.Uint32() >> 1}
			}
			return wire.Cmd{Op: "set", Key: k, Value: val, Flags: r.Uint32() | 0x01010101}
		}
		mget := func(nonquiet bool) wire.Cmd {
			g := wire.Cmd{Op: "get", Opaque: r.Uint32() >> 1, NonQuiet: nonquiet, NoopEnd: !nonquiet}
			for j := 0; j < 2+r.Intn(4); j++ {
				g.Keys = append(g.Keys, c.ns+fmt.Sprint(r.Intn(4)))
			}
			return g
		}
		switch cs.Mix {
		case "mget-dup":
			// the same key more than once in one get: a cut between the replies to the copies
			if r.Intn(4) > 0 {
				a, b := c.ns+fmt.Sprint(r.Intn(3)), c.ns+"3"
				g := wire.Cmd{Op: "get", Opaque: r.Uint32() >> 1, NonQuiet: r.Intn(4) > 0}
				g.NoopEnd = !g.NonQuiet
				g.SameOpaque = g.NonQuiet && r.Intn(3) > 0 // text-style: every key with the same opaque
				g.Keys = [][]string{{a, a}, {a, a, b}, {b, a, a}, {a, b, a}, {a, a, a}}[r.Intn(5)]
				return g
			}
		case "gete-ttl":
			// values with a TTL read with gete: a transparently retried key still reports the
			// backend's remaining lifetime
			if r.Intn(3) > 0 {
				g := wire.Cmd{Op: "gete", Opaque: r.Uint32() >> 1, NonQuiet: r.Intn(2) == 0}
				g.NoopEnd = !g.NonQuiet
				for j := 0; j < 2+r.Intn(3); j++ {
					g.Keys = append(g.Keys, c.ns+fmt.Sprint(r.Intn(3)))
				}
				return g
			}
			c.id++
			return wire.Cmd{Op: "set", Key: c.ns + fmt.Sprint(r.Intn(3)), Value: makeValue(c.id, 60), Flags: r.Uint32(), TTL: 5000}
		case "mget-slow":
			// three distinct keys, a consumer that pauses after the first value
			if r.Intn(3) > 0 {
				return wire.Cmd{Op: "get", Opaque: r.Uint32() >> 1, NonQuiet: true, Keys: []string{c.ns + "0", c.ns + "1", c.ns + "2"}, ConsumerPauseMs: 250}
			}
			c.id++
			return wire.Cmd{Op: "set", Key: c.ns + fmt.Sprint(r.Intn(3)), Value: makeValue(c.id, 120), Flags: r.Uint32()}
		case "mget-nonquiet":
			if r.Intn(3) > 0 {
				return mget(true)
			}
		case "mget-quiet":
			if r.Intn(3) > 0 {
				return mget(false)
			}
		case "mixed":
			switch r.Intn(6) {
			case 0:
				return mget(true)
			case 1:
				return mget(false)
			}
		}
		switch r.Intn(10) {
		case 0, 1, 2:
			return wire.Cmd{Op: "set", Key: k, Value: val, Flags: r.Uint32()}
		case 3:
			return wire.Cmd{Op: []string{"add", "replace"}[r.Intn(2)], Key: k, Value: val, Flags: r.Uint32()}
		case 4:
			return wire.Cmd{Op: []string{"append", "prepend"}[r.Intn(2)], Key: k, Value: val[:minInt(len(val), 12)]}
		case 5:
			return wire.Cmd{Op: []string{"delete", "touch"}[r.Intn(2)], Key: k}
		case 6:
			return wire.Cmd{Op: "gat", Key: k, Opaque: r.Uint32()}
		}
		return wire.Cmd{Op: "get", Keys: []string{k}, Opaque: r.Uint32() >> 1}
	}
	round := func(nops int, phase int) bool {
		var wg sync.WaitGroup
		for i, c := range callers {
			wg.Add(1)
			go func(i int, c *caller) {
				defer wg.Done()
				r := rand.New(rand.NewSource(seed*7919 + int64(i*131+phase)))
				for j := 0; j < nops; j++ {
					doOp(c, genOp(c, r))
				}
			}(i, c)
		}
		done := make(chan struct{})
		go func() { wg.Wait(); close(done) }()
		// backstop on progress (every single call is already bounded by the per-call hang verdict)
		last, lastChange := int64(-1), time.Now()
		for {
			select {
			case <-done:
				return true
			case <-time.After(2 * time.Second):
				if n := atomic.LoadInt64(&v.Ops); n != last {
					last, lastChange = n, time.Now()
				} else if time.Since(lastChange) > 100*time.Second {
					return false
				}
			}
		}
	}
	// phase 0: fault-free warm-up
	if !round(6, 0) {
		v.Inconcl = "warm-up round did not finish"
		return v
	}
	if v.Bad != "" {
		v.Bad = "fault-free: " + v.Bad
		return v
	}
	// phase 1: cuts
	fired := int32(0)
	mkFault := func(kind string, bytes int) fakemc.Fault {
		switch kind {
		case "before":
			return fakemc.Fault{Kind: fakemc.FaultCloseBefore}
		case "after":
			return fakemc.Fault{Kind: fakemc.FaultCloseAfter}
		}
		return fakemc.Fault{Kind: fakemc.FaultCloseMid, Bytes: bytes}
	}
	isGetOp := func(op byte) bool {
		switch op {
		case fakemc.OpGet, fakemc.OpGetQ, fakemc.OpGetK, fakemc.OpGetKQ, fakemc.OpGetE, fakemc.OpGetEQ:
			return true
		}
		return false
	}
	getsOnly := cs.Mix == "mget-dup" || cs.Mix == "mget-slow" || cs.Mix == "gete-ttl"
	switch cs.Cut {
	case "double":
		// the first attempt of a multi-get is cut before any reply, its retry after J+1 replies
		e.st.ArmFaultFn(func(n uint64, rq *fakemc.Req) fakemc.Fault {
			if !isGetOp(rq.Op) {
				return fakemc.Fault{}
			}
			if rq.Burst == 0 && atomic.CompareAndSwapInt32(&fired, 0, 1) {
				e.noteCut()
				return fakemc.Fault{Kind: fakemc.FaultCloseBefore}
			}
			if rq.Burst == cs.J && atomic.CompareAndSwapInt32(&fired, 1, 2) {
				e.noteCut()
				return fakemc.Fault{Kind: fakemc.FaultCloseAfter}
			}
			return fakemc.Fault{}
		})
	case "before", "after", "mid":
		e.st.ArmFaultFn(func(n uint64, rq *fakemc.Req) fakemc.Fault {
			if getsOnly && !isGetOp(rq.Op) {
				return fakemc.Fault{}
			}
			if rq.Burst == cs.J && rq.Op != fakemc.OpNoop && atomic.CompareAndSwapInt32(&fired, 0, 1) {
				e.noteCut()
				return mkFault(cs.Cut, cs.Bytes)
			}
			return fakemc.Fault{}
		})
	case "repeated":
		e.st.ArmFaultFn(func(n uint64, rq *fakemc.Req) fakemc.Fault {
			if n%uint64(cs.J+5) == 0 && atomic.LoadInt32(&fired) < 6 {
				atomic.AddInt32(&fired, 1)
				e.noteCut()
				return mkFault([]string{"before", "after", "mid"}[n%3], 24+int(n%9))
			}
			return fakemc.Fault{}
		})
	}
	stopAux := make(chan struct{})
	var auxWG sync.WaitGroup
	if cs.Cut == "idle" || cs.Cut == "outage" || cs.Cut == "long-outage" {
		auxWG.Add(1)
		go func() {
			defer auxWG.Done()
			time.Sleep(time.Duration(200+seed%7*100) * time.Microsecond)
			if cs.Cut != "idle" {
				e.srv.StopListening()
			}
			e.noteCut()
			e.st.CutAll()
			if cs.Cut == "long-outage" {
				// longer than the reconnect loop's whole back-off schedule (20 attempts, about
				// 14 s): the loop must keep trying at its slowest cadence. cs.Bytes = seconds.
				time.Sleep(time.Duration(cs.Bytes) * time.Second)
				e.noteCut()
				e.srv.StartListening()
			}
			if cs.Cut == "outage" {
				select {
				case <-stopAux:
				case <-time.After(150 * time.Millisecond):
				}
				e.noteCut()
				e.srv.StartListening()
			}
		}()
	}
	ok := round(12, 1)
	close(stopAux)
	auxWG.Wait()
	e.st.DisarmFaults()
	e.srv.StartListening()
	v.Cuts = atomic.LoadInt64(&e.cuts)
	if !ok {
		// the backend is listening; blocked calls must complete: give them a generous extra time
		v.Bad = "a call never returns although the backend accepts connections again"
		v.Witness["goroutines"] = lastLines(filterDump(allStacks()), 60)
		return v
	}
	if v.Bad != "" {
		return v
	}
	// phase 2: once the pool is whole again, everything must be exact. Pooled connections that
	// were cut while idle only notice when they are used next, so use every one of them first
	// (submission picks a random connection; these reads are judged like any other operation).
	for i := 0; i < 40*cs.Pool && e.st.OpenConns() < cs.Pool; i++ {
		c := callers[i%len(callers)]
		doOp(c, wire.Cmd{Op: "get", Keys: []string{c.ns + "0"}, Opaque: uint32(0x5000 + i)})
	}
	if v.Bad != "" {
		return v
	}
	if !e.waitPool(cs.Pool, 30*time.Second) {
		v.Bad = "the pool does not re-establish its connections once the backend accepts again"
		v.Witness["open_connections"] = e.st.OpenConns()
		return v
	}
	for time.Now().UnixNano()-atomic.LoadInt64(&e.lastCut) < int64(450*time.Millisecond) {
		time.Sleep(10 * time.Millisecond)
	}
	base := atomic.LoadInt64(&e.cuts)
	for _, c := range callers {
		// collapse the uncertainty left by the cuts with unconditional writes, then exact ops
		for j := 0; j < 4; j++ {
			c.id++
			collapse := wire.Cmd{Op: "set", Key: c.ns + fmt.Sprint(j), Value: makeValue(c.id, 20), Flags: c.id}
			if cs.Mix == "gete-ttl" {
				collapse.TTL = 5000
			}
			doOp(c, collapse)
		}
	}
	if !round(10, 2) {
		v.Bad = "a call never returns after recovery"
		v.Witness["goroutines"] = lastLines(filterDump(allStacks()), 60)
		return v
	}
	if v.Bad != "" {
		v.Bad = "after recovery: " + v.Bad
	}
	if atomic.LoadInt64(&e.cuts) != base {
		v.Inconcl = "unexpected cut during the recovery round"
	}
	return v
}

func childC13(args []string) int {
	run, finish := childRun("C13", "fault_enumeration")
	rng := rand.New(rand.NewSource(run.Seed()*79 + 13))
	var cases []c13Case
	mixes := []string{"single", "mget-nonquiet", "mget-quiet", "mixed"}
	pools := []int{1, 2, 4}
	callerN := []int{1, 4, 8, 32}
	add := func(cut string, j, bytes int) {
		cases = append(cases, c13Case{Pool: pools[rng.Intn(len(pools))], Callers: callerN[rng.Intn(len(callerN))], Mix: mixes[len(cases)%len(mixes)],
			Cut: cut, J: j, Bytes: bytes, Batch: []int{1, 2, 4, 10}[rng.Intn(4)]})
	}
	maxJ := run.Pick(6, 10)
	for j := 0; j < maxJ; j++ {
		add("before", j, 0)
		add("after", j, 0)
		for _, b := range []int{1, 12, 20, 24, 25, 40} {
			add("mid", j, b)
		}
	}
	for i := 0; i < run.Pick(8, 40); i++ {
		cases = append(cases, c13Case{Pool: 1, Callers: []int{1, 4, 8}[i%3], Mix: "empty-values", Cut: "mid", J: i % 2, Bytes: 25 + i%7, Batch: []int{1, 4}[i%2]})
	}
	for i := 0; i < run.Pick(12, 60); i++ {
		add("idle", 0, 0)
		add("outage", 0, 0)
		add("repeated", i%6, 0)
	}
	for _, cut := range []string{"before", "after", "mid"} {
		for j := 0; j < 3; j++ {
			for _, callers := range []int{1, 1, 2}[:run.Pick(2, 3)] {
				cases = append(cases, c13Case{Pool: 1, Callers: callers, Mix: "mget-dup", Cut: cut, J: j, Bytes: []int{24, 25, 40}[j], Batch: 10})
			}
		}
	}
	for i := 0; i < run.Pick(4, 24); i++ {
		cases = append(cases, c13Case{Pool: 1, Callers: 1, Mix: "mget-slow", Cut: "double", J: 1 + i%2, Batch: 10})
	}
	for i := 0; i < run.Pick(9, 45); i++ {
		cases = append(cases, c13Case{Pool: 1 + i%2, Callers: []int{1, 2, 4}[i%3], Mix: "gete-ttl", Cut: []string{"after", "mid", "before"}[i%3], J: i % 3, Bytes: []int{24, 36, 60}[i%3], Batch: 10})
	}
	for i := 0; i < run.Pick(1, 3); i++ {
		cases = append(cases, c13Case{Pool: 1 + i, Callers: 4, Mix: "single", Cut: "long-outage", Bytes: 16 + 5*i, Batch: 4})
	}
	if run.Thorough() {
		for i := 0; i < 1500; i++ {
			kind := []string{"before", "after", "mid", "mid", "repeated", "idle", "outage"}[rng.Intn(7)]
			add(kind, rng.Intn(10), []int{1, 23, 24, 25, 28, 60, 3000}[rng.Intn(7)])
		}
	}
	// callers need bursts at least j+1 long: make sure enough callers / batch size for large j
	for i := range cases {
		if cases[i].Mix == "mget-dup" || cases[i].Mix == "mget-slow" || cases[i].Mix == "gete-ttl" {
			continue
		}
		if cases[i].J >= 2 && (cases[i].Cut == "before" || cases[i].Cut == "after" || cases[i].Cut == "mid") {
			if cases[i].Callers < 8 {
				cases[i].Callers = 8 + 8*rng.Intn(4)
			}
			if cases[i].Batch <= cases[i].J {
				cases[i].Batch = 10
			}
			cases[i].Pool = 1
		}
	}
	sort.SliceStable(cases, func(i, j int) bool { return cases[i].Cut == "long-outage" && cases[j].Cut != "long-outage" })
	handlerWatchdog = 45 * time.Second // a call may sit out a long outage
	sem := make(chan struct{}, 12)
	var wg sync.WaitGroup
	for ci, cs := range cases {
		wg.Add(1)
		sem <- struct{}{}
		go func(ci int, cs c13Case) {
			defer wg.Done()
			defer func() { <-sem }()
			announceCase(cs.String())
			v := c13RunCase(cs, run.Seed()*100003+int64(ci))
			run.Eval(1)
			run.Count("cut_cases", 1)
			run.Count("cuts_fired", v.Cuts)
			run.Count("operations", v.Ops)
			run.Count("operations_with_a_cut_in_flight", v.Tainted)
			run.Count("operations_answered_with_an_error", v.Errors)
			if v.Cuts == 0 {
				run.Count("cases_whose_cut_position_was_not_reached", 1)
			}
			run.Distinct(fmt.Sprintf("%d|%d|%s|%s|%d|%d", cs.Pool, cs.Callers, cs.Mix, cs.Cut, cs.J, cs.Bytes))
			if ci%37 == 0 {
				run.Sample(map[string]interface{}{"case": cs.String(), "operations": v.Ops, "with_cut_in_flight": v.Tainted, "errors": v.Errors})
			}
			if v.Inconcl != "" {
				run.Inconclusive(cs.String() + ": " + v.Inconcl)
			}
			if v.Bad != "" {
				pos := cs.Cut
				if cs.Cut == "mid" {
					pos = "inside a reply"
				}
				run.Violation(fmt.Sprintf("batched|%s|cut %s|%s", cs.Mix, pos, v.Bad), v.Witness)
			}
		}(ci, cs)
	}
	wg.Wait()
	return finish()
}
