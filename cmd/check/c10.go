package main

import (
	"bytes"
	"errors"
	"fmt"
	"math/rand"
	"os"
	"strings"
	"sync"
	"sync/atomic"
	"time"

	"verif/evid"
	"verif/fakemc"
	"verif/harness"
	"verif/wire"
)

func init() { checks["C10"] = checkC10 }

// pstate is one possible state of a key: absent or (value, flags).
type pstate struct {
	present bool
	value   string
	flags   uint32
}

// pmodel tracks, per key, the set of states the key may be in given which commands were
// acknowledged and which had an unknown outcome.
type pmodel struct {
	states map[string][]pstate
	// superseded values: values an acknowledged write or delete has replaced
	superseded map[string]map[string]bool
}

func newPModel() *pmodel {
	return &pmodel{states: map[string][]pstate{}, superseded: map[string]map[string]bool{}}
}

func (m *pmodel) get(k string) []pstate {
	if s, ok := m.states[k]; ok {
		return s
	}
	return []pstate{{}}
}

func applyOne(st pstate, c wire.Cmd) pstate {
	switch c.Op {
	case "set":
		return pstate{true, string(c.Value), c.Flags}
	case "add":
		if !st.present {
			return pstate{true, string(c.Value), c.Flags}
		}
	case "replace":
		if st.present {
			return pstate{true, string(c.Value), c.Flags}
		}
	case "append":
		if st.present {
			return pstate{true, st.value + string(c.Value), st.flags}
		}
	case "prepend":
		if st.present {
			return pstate{true, string(c.Value) + st.value, st.flags}
		}
	case "delete":
		return pstate{}
	}
	return st
}

func dedup(ss []pstate) []pstate {
	var out []pstate
	for _, s := range ss {
		dup := false
		for _, o := range out {
			if o == s {
				dup = true
			}
		}
		if !dup {
			out = append(out, s)
		}
	}
	return out
}

// apply records command c with the given acknowledgement: "ok" (acknowledged success),
// "fail" (benign failure reply: nothing changed as far as the client was told), "unknown".
func (m *pmodel) apply(c wire.Cmd, ack string) {
	if c.IsGet() || c.Op == "gat" || c.Op == "touch" || c.Key == "" {
		return
	}
	cur := m.get(c.Key)
	var next []pstate
	switch ack {
	case "ok":
		for _, s := range cur {
			// an acknowledged add/replace/append tells us which branch was taken
			if c.Op == "add" && s.present || (c.Op == "replace" || c.Op == "append" || c.Op == "prepend") && !s.present {
				continue
			}
			if c.Op == "delete" && !s.present {
				continue
			}
			n := applyOne(s, c)
			next = append(next, n)
			if s.present && (n.value != s.value || !n.present) {
				if m.superseded[c.Key] == nil {
					m.superseded[c.Key] = map[string]bool{}
				}
				m.superseded[c.Key][s.value] = true
			}
		}
		if len(next) == 0 { // acknowledged although no possible state allows it: keep the applied image of all
			for _, s := range cur {
				forced := s
				switch c.Op {
				case "delete":
					forced = pstate{}
				default:
					forced = pstate{true, string(c.Value), c.Flags}
				}
				next = append(next, forced)
			}
		}
	case "fail":
		next = cur
	default:
		for _, s := range cur {
			next = append(next, s, applyOne(s, c))
		}
	}
	next = dedup(next)
	// a value that is possible again is not superseded
	for _, s := range next {
		if s.present && m.superseded[c.Key] != nil {
			delete(m.superseded[c.Key], s.value)
		}
	}
	m.states[c.Key] = next
}

// judgeRead returns "" if a read result for key k is acceptable.
func (m *pmodel) judgeRead(k string, vals []wire.Val) string {
	for _, v := range vals {
		if v.Key != k {
			continue
		}
		ok := false
		for _, s := range m.get(k) {
			if s.present && s.value == string(v.Data) && s.flags == v.Flags {
				ok = true
			}
		}
		if ok {
			continue
		}
		if m.superseded[k][string(v.Data)] {
			return "a read returns the value from before an acknowledged write or delete"
		}
		for _, s := range m.get(k) {
			if s.present && s.value == string(v.Data) {
				return "a read returns a written value with the wrong flags"
			}
		}
		return "a read returns a value that was never written to that key"
	}
	return ""
}

type c10Program struct {
	Name   string
	Setup  []wire.Cmd
	EvictL []string // L1 keys evicted after set-up ("in L2 only")
	Target wire.Cmd
}

func c10Programs(rng *rand.Rand, binary bool, chunkedL1 bool, n int) []c10Program {
	var progs []c10Program
	id := uint32(1)
	val := func() []byte {
		lens := []int{0, 7, 300}
		if chunkedL1 {
			lens = []int{0, 7, chunkPayload(2) + 5, 3*chunkPayload(2) - 1}
		}
		id++
		return makeValue(id, lens[rng.Intn(len(lens))])
	}
	targets := []string{"set", "add", "replace", "append", "prepend", "delete", "touch", "get", "mget", "gat", "setq"}
	states := []string{"absent", "both", "l2only"}
	for len(progs) < n {
		t := targets[len(progs)%len(targets)]
		st := states[(len(progs)/len(targets))%len(states)]
		if (t == "gat" || t == "setq") && !binary {
			t = "get"
		}
		p := c10Program{Name: t + "/" + st}
		if st != "absent" {
			p.Setup = append(p.Setup, wire.Cmd{Op: "set", Key: "ka", Value: val(), Flags: rng.Uint32(), Opaque: 0x100})
			if rng.Intn(3) == 0 {
				p.Setup = append(p.Setup, wire.Cmd{Op: "set", Key: "kb", Value: val(), Flags: rng.Uint32(), Opaque: 0x101})
			}
			if st == "l2only" {
				p.EvictL = []string{"ka"}
			}
		}
		c := wire.Cmd{Key: "ka", Opaque: 0x200}
		switch t {
		case "set", "add", "replace":
			c.Op, c.Value, c.Flags = t, val(), rng.Uint32()
		case "setq":
			c.Op, c.Value, c.Flags, c.QuietSet = "set", val(), rng.Uint32(), true
		case "append", "prepend":
			c.Op, c.Value = t, val()
		case "delete":
			c.Op = t
		case "touch", "gat":
			c.Op, c.TTL = t, 1000
		case "get":
			c = wire.Cmd{Op: "get", Keys: []string{"ka"}, Opaque: 0x200}
		case "mget":
			c = wire.Cmd{Op: "get", Keys: []string{"kb", "ka", "kc"}, Opaque: 0x200, NoopEnd: binary && rng.Intn(2) == 0}
		}
		p.Target = c
		progs = append(progs, p)
	}
	return progs
}

func c10FaultKinds(quick bool, valueLen int) []fakemc.Fault {
	var out []fakemc.Fault
	// 0x02 (key exists) is not injected: it would contradict the backend's own contents; it
	// occurs naturally in the add programs. 0x01 / 0x05 are made truthful by evicting the entry.
	sts := []uint16{0x01, 0x03, 0x04, 0x05, 0x81, 0x82, 0x83, 0x84, 0x85, 0x86}
	if quick {
		sts = []uint16{0x01, 0x05, 0x03, 0x82, 0x84}
	}
	for _, s := range sts {
		out = append(out, fakemc.Fault{Kind: fakemc.FaultStatus, Status: s})
	}
	out = append(out, fakemc.Fault{Kind: fakemc.FaultCloseBefore}, fakemc.Fault{Kind: fakemc.FaultCloseAfter})
	// 1: inside the header; 24: header complete; 25: inside the extras; 28 / 32: extras of a
	// get / gete reply complete and not one byte of the value; 31: inside a value
	for _, b := range []int{1, 24, 25, 28, 32} {
		out = append(out, fakemc.Fault{Kind: fakemc.FaultCloseMid, Bytes: b})
	}
	out = append(out, fakemc.Fault{Kind: fakemc.FaultCloseMid, Bytes: 24 + 4 + 3})
	return out
}

type c10Result struct {
	Bad      string
	Hang     bool
	Witness  map[string]interface{}
	Inconcl  string
	Restart  bool
	Requests [2]int
	Ops      [2][]byte // opcodes of the backend requests the target made on L1 / L2
	Acked    bool
}

// statusPlausible says whether a memcached could answer opcode op with error status st.
// Statuses that assert something about the key's presence which the opcode cannot express
// (e.g. "item not stored" as the answer to a get) are not injected: the orchestrators
// legitimately read meaning into them.
func statusPlausible(op byte, st uint16) bool {
	storage := op == fakemc.OpSet || op == fakemc.OpSetQ || op == fakemc.OpAdd || op == fakemc.OpAddQ || op == fakemc.OpReplace || op == fakemc.OpReplaceQ
	concat := op == fakemc.OpAppend || op == fakemc.OpAppendQ || op == fakemc.OpPrepend || op == fakemc.OpPrependQ
	switch st {
	case 0x01: // key not found (made truthful by evicting the entry)
		return !storage || op == fakemc.OpReplace || op == fakemc.OpReplaceQ
	case 0x05: // item not stored: absence for append/prepend (evicted), a bare refusal for set/add/replace
		return storage || concat
	case 0x03: // value too large
		return storage || concat
	}
	return true
}

// c10Run executes one program with an optional single fault (tier 0 = none, 1 = L1, 2 = L2).
func c10Run(p *harness.Proxy, binary bool, port int, prog c10Program, tier int, idx uint64, flt fakemc.Fault) c10Result {
	res := c10Result{Witness: map[string]interface{}{}}
	p.ResetStores()
	pm := newPModel()
	// set-up always goes through the main port: the batch orchestrator never inserts into L1
	setup, err := p.Dial(0, binary)
	if err != nil {
		res.Inconcl = "dial: " + err.Error()
		return res
	}
	for _, c := range prog.Setup {
		r, err := setup.Do(c)
		if err != nil || r.Class != "ok" {
			setup.Close()
			res.Inconcl = fmt.Sprintf("set-up command failed: %v %v", r.Class, err)
			return res
		}
		pm.apply(c, "ok")
	}
	setup.Close()
	if len(prog.EvictL) > 0 {
		for _, k := range prog.EvictL {
			evictClientKey(p, k)
			if !p.Cfg.L2 {
				// without an L2 the eviction loses the key altogether
				pm.states[k] = []pstate{{}}
			}
		}
	}
	// bystander connection, opened before the fault
	by, err := p.Dial(port, binary)
	if err != nil {
		res.Inconcl = "dial: " + err.Error()
		return res
	}
	defer by.Close()
	if r, err := by.Do(wire.Cmd{Op: "set", Key: "bystander", Value: []byte("b0"), Flags: 77, Opaque: 0x300}); err != nil || r.Class != "ok" {
		res.Inconcl = "bystander set failed"
		return res
	}
	cl, err := p.Dial(port, binary)
	if err != nil {
		res.Inconcl = "dial: " + err.Error()
		return res
	}
	defer cl.Close()
	cl.Watchdog = 6 * time.Second
	// make sure the target's backend connections exist before arming (they are opened at accept)
	p.L1.ResetLog()
	p.L2.ResetLog()
	p.L1.ArmFaults(nil)
	p.L2.ArmFaults(nil)
	switch tier {
	case 1:
		p.L1.ArmFaults(map[uint64]fakemc.Fault{idx: flt})
	case 2:
		p.L2.ArmFaults(map[uint64]fakemc.Fault{idx: flt})
	}
	obs, err := cl.Do(prog.Target)
	res.Requests = [2]int{int(p.L1.ArmedCount()), int(p.L2.ArmedCount())}
	for _, rq := range p.L1.Log() {
		res.Ops[0] = append(res.Ops[0], rq.Op)
	}
	for _, rq := range p.L2.Log() {
		res.Ops[1] = append(res.Ops[1], rq.Op)
	}
	p.L1.DisarmFaults()
	p.L2.DisarmFaults()
	res.Witness["target_reply"] = brief(obs)
	res.Witness["l1_requests"] = logBrief(p.L1.Log())
	res.Witness["l2_requests"] = logBrief(p.L2.Log())
	if err != nil {
		if !p.Alive() {
			res.Bad = "server process exited"
			res.Witness["stderr_tail"] = lastLines(p.Stderr(), 40)
			res.Restart = true
			return res
		}
		if errors.Is(err, wire.ErrMalformed) {
			res.Bad = "malformed reply after a backend fault: " + canonAnomaly(err.Error())
			return res
		}
		if errors.Is(err, wire.ErrWatchdog) {
			// second chance on a loaded machine: keep listening; bytes or a close arriving now
			// mean "slow", not "never"
			cl.Conn.SetReadDeadline(time.Now().Add(15 * time.Second))
			if _, perr := cl.R.Peek(1); perr == nil || !errors.Is(mapTimeout(perr), wire.ErrWatchdog) {
				res.Inconcl = "reply arrived only after the watchdog (slow machine?)"
				res.Restart = true
				return res
			}
			// decide from state: the backends are idle, nothing can unblock the request
			pend := p.L1.Pending() + p.L2.Pending()
			dump := p.GoroutineDumpKill()
			res.Restart = true
			res.Witness["goroutines"] = lastLines(filterDump(dump), 70)
			res.Witness["backend_requests_pending"] = pend
			loop := blocksWith(dump, "server.(*DefaultServer).Loop")
			state := "blocked"
			for _, b := range loop {
				first := strings.SplitN(b, "\n", 2)[0]
				if strings.Contains(first, "[running]") || strings.Contains(first, "[runnable]") {
					state = "spinning"
				}
			}
			for _, b := range goroutineBlocks(dump) {
				first := strings.SplitN(b, "\n", 2)[0]
				if (strings.Contains(first, "[running]") || strings.Contains(first, "[runnable]")) && strings.Contains(b, "rend/handlers/") {
					state = "spinning"
				}
			}
			if pend == 0 {
				res.Hang = true
				res.Bad = "client request never terminates after a backend fault (connection goroutine " + state + ", backends idle)"
			} else {
				res.Inconcl = "watchdog with backend requests pending"
			}
			return res
		}
		res.Inconcl = "target: " + err.Error()
		return res
	}
	// the sentinel that follows every command was answered, so the connection lives on: the
	// faulted request itself must have been answered too (terminator or error reply). A client
	// without a sentinel would wait for ever otherwise.
	if obs.Class != "closed" && !prog.Target.QuietSet {
		// (not one frame / line: the error reply to a failed binary get carries opaque 0 - the
		// code says so itself - and is therefore counted, not attributed)
		if obs.Replies == 0 {
			res.Bad = "the faulted request is never answered: no terminator, no error reply, no close (only the request sent after it is answered)"
			return res
		}
	}
	// acknowledgement of the target
	ack := "unknown"
	switch {
	case obs.Class == "closed":
		ack = "unknown"
	case prog.Target.QuietSet:
		if obs.Replies == 0 {
			// the sentinel that followed was answered and no error reply came first: for a quiet
			// command that silence IS the acknowledgement
			ack = "ok"
			res.Acked = true
		}
	case obs.Class == "ok" && obs.Replies >= 1:
		ack = "ok"
		res.Acked = true
	case obs.Class == "notfound" || obs.Class == "exists" || obs.Class == "notstored":
		ack = "unknown" // a benign failure reply produced by an injected status may hide a partial effect
	}
	pm.apply(prog.Target, ack)
	if prog.Target.IsGet() || prog.Target.Op == "gat" {
		keys := prog.Target.Keys
		if prog.Target.Op == "gat" {
			keys = []string{"ka"}
		}
		for _, k := range keys {
			if d := pm.judgeRead(k, obs.Values); d != "" {
				res.Bad = "faulted read: " + d
				return res
			}
		}
	}
	if !p.Alive() {
		res.Bad = "server process exited"
		res.Witness["stderr_tail"] = lastLines(p.Stderr(), 40)
		res.Restart = true
		return res
	}
	// the faulted connection itself, if it was not closed, stays usable and in sync: follow-up
	// requests on it terminate and return the correct value or a miss
	if obs.Class != "closed" {
		for fi, k := range []string{"kb", "ka", "kfollow"} {
			fc := wire.Cmd{Op: "get", Keys: []string{k}, Opaque: 0x500 + uint32(fi)}
			fr, ferr := cl.Do(fc)
			if ferr != nil {
				if errors.Is(ferr, wire.ErrWatchdog) {
					cl.Conn.SetReadDeadline(time.Now().Add(15 * time.Second))
					if _, perr := cl.R.Peek(1); perr == nil || !errors.Is(mapTimeout(perr), wire.ErrWatchdog) {
						res.Inconcl = "follow-up reply arrived only after the watchdog"
						res.Restart = true
						return res
					}
					res.Witness["goroutines"] = lastLines(filterDump(p.GoroutineDumpKill()), 60)
					res.Restart = true
					res.Hang = true
					res.Bad = "a later request on the faulted connection never terminates (backend stream out of step)"
					return res
				}
				if errors.Is(ferr, wire.ErrMalformed) {
					res.Bad = "malformed reply to a later request on the faulted connection"
					return res
				}
				break
			}
			if fr.Class == "closed" {
				res.Witness["follow_up_closed_at"] = fc.Short()
				break
			}
			if d := pm.judgeRead(k, fr.Values); d != "" {
				res.Bad = "later request on the faulted connection: " + d
				res.Witness["follow_up_reply"] = brief(fr)
				return res
			}
		}
	}
	// the bystander connection is unaffected
	r1, e1 := by.Do(wire.Cmd{Op: "get", Keys: []string{"bystander"}, Opaque: 0x301})
	if e1 != nil || len(r1.Values) != 1 || string(r1.Values[0].Data) != "b0" || r1.Values[0].Flags != 77 {
		res.Witness["bystander_reply"] = brief(r1)
		if p.Cfg.L1Kind == "batched" && (tier == 1) {
			// the pool is shared by design; its recovery is C13's subject
		} else {
			res.Bad = "another connection is affected by the fault"
			return res
		}
	}
	// verification reads from a fresh connection, twice (the first may back-fill L1)
	ver, err := p.Dial(port, binary)
	if err != nil {
		res.Bad = "server refuses new connections after a backend fault"
		return res
	}
	defer ver.Close()
	for round := 0; round < 2; round++ {
		for _, k := range []string{"ka", "kb"} {
			r, err := ver.Do(wire.Cmd{Op: "get", Keys: []string{k}, Opaque: 0x400 + uint32(round)})
			if err != nil {
				res.Inconcl = "verification read: " + err.Error()
				return res
			}
			if r.Class == "closed" && p.Cfg.L1Kind == "batched" {
				continue
			}
			if d := pm.judgeRead(k, r.Values); d != "" {
				res.Bad = "read after the fault: " + d
				res.Witness["verification_reply"] = brief(r)
				res.Witness["possible_states"] = fmt.Sprintf("%d", len(pm.get(k)))
				res.Witness["l1"] = storeBrief(p, 1)
				res.Witness["l2"] = storeBrief(p, 2)
				return res
			}
		}
	}
	return res
}

func logBrief(log []fakemc.Req) []string {
	var out []string
	for i, rq := range log {
		if i >= 14 {
			out = append(out, "...")
			break
		}
		s := fmt.Sprintf("op=0x%02x key=%q status=0x%02x", rq.Op, rq.Key, rq.Status)
		if rq.Faulted != "" {
			s += " FAULT=" + rq.Faulted
		}
		out = append(out, s)
	}
	return out
}

func checkC10(tier, replay string) int {
	run := evid.NewRun("C10", tier, "fault_enumeration")
	run.Rule("for short programs (set-up + one target command of every kind; key absent / in both tiers / in L2 only; values of 0..3 chunks) a fault-free dry run counts the backend requests per tier; " +
		"then for EVERY (tier, request index, fault kind in {error statuses with body, close before processing, close after processing, close after 1/24/25/31 reply bytes}) the program is re-run on fresh stores with that single fault armed. " +
		"Monitors: strict decoding of the client stream (well-formed replies, error reply or close), hang verdict from state (goroutine dump + idle backends), process liveness, a bystander connection opened before the fault, " +
		"and verification reads from a fresh connection judged against a possible-state model (acknowledged writes collapse the set, unacknowledged ones widen it). " +
		"distinct_nontrivial = distinct (configuration, protocol, port, program kind, tier, request index, fault kind)")
	run.Assume("single faults only; corrupt-but-well-framed backend replies are outside the statement")
	nprog := run.Pick(33, 99)
	var cfgs []harness.ProxyCfg
	for _, kind := range []string{"std", "chunked"} {
		cfgs = append(cfgs, harness.ProxyCfg{L1Kind: kind}, harness.ProxyCfg{L2: true, L1Kind: kind})
	}
	cfgs = append(cfgs, harness.ProxyCfg{L2: true, L1Kind: "std", Locked: true, MultiReader: true})
	// the batching pool as L1: error statuses only (what a lost pool connection does to the
	// callers is C13's subject)
	cfgs = append(cfgs, harness.ProxyCfg{L1Kind: "batched"}, harness.ProxyCfg{L2: true, L1Kind: "batched"})
	if run.Thorough() {
		cfgs = append(cfgs, harness.ProxyCfg{L2: true, L1Kind: "chunked", Locked: true}, harness.ProxyCfg{L1Kind: "std", Locked: true})
	}
	type job struct {
		cfg    harness.ProxyCfg
		binary bool
		port   int
	}
	var jobs []job
	for _, cfg := range cfgs {
		for _, binary := range []bool{true, false} {
			jobs = append(jobs, job{cfg, binary, 0})
			if cfg.L2 {
				jobs = append(jobs, job{cfg, binary, 1})
			}
		}
	}
	var hangs int32
	sem := make(chan struct{}, 14)
	var wg sync.WaitGroup
	for ji, jb := range jobs {
		wg.Add(1)
		sem <- struct{}{}
		go func(ji int, jb job) {
			defer wg.Done()
			defer func() { <-sem }()
			p, err := harness.StartProxy(jb.cfg)
			if err != nil {
				startFailure(run, jb.cfg.Name(), err)
				return
			}
			defer func() { p.Stop() }()
			rng := rand.New(rand.NewSource(run.Seed()*4000037 + int64(ji)))
			what := fmt.Sprintf("%s|%s|port%d", jb.cfg.Name(), protoName(jb.binary), jb.port)
			for _, prog := range c10Programs(rng, jb.binary, jb.cfg.L1Kind == "chunked", nprog) {
				dry := c10Run(p, jb.binary, jb.port, prog, 0, 0, fakemc.Fault{})
				if dry.Inconcl != "" || dry.Bad != "" {
					if dry.Bad != "" {
						run.Violation(what+"|"+prog.Name+"|fault-free run|"+dry.Bad, dry.Witness)
					} else {
						run.Inconclusive(what + " dry run: " + dry.Inconcl)
					}
					if dry.Restart || !p.Alive() {
						np, err := harness.StartProxy(jb.cfg)
						if err != nil {
							return
						}
						p.Stop()
						p = np
					}
					continue
				}
				run.Count("programs", 1)
				if ji == 1 && prog.Name[:3] == "set" {
					run.Sample(map[string]interface{}{"config": what, "program": prog.Name, "setup": shortCmds(prog.Setup, 4), "target": prog.Target.Short(),
						"backend_requests_fault_free": map[string]int{"L1": dry.Requests[0], "L2": dry.Requests[1]}})
				}
				for tierN := 1; tierN <= 2; tierN++ {
					n := dry.Requests[tierN-1]
					for idx := 1; idx <= n; idx++ {
						for _, flt := range c10FaultKinds(!run.Thorough(), len(prog.Target.Value)) {
							if flt.Kind == fakemc.FaultStatus && idx-1 < len(dry.Ops[tierN-1]) && !statusPlausible(dry.Ops[tierN-1][idx-1], flt.Status) {
								run.Count("status_faults_skipped_as_implausible_for_the_opcode", 1)
								continue
							}
							if jb.cfg.L1Kind == "batched" && tierN == 1 && flt.Kind != fakemc.FaultStatus {
								continue
							}
							if atomic.LoadInt32(&hangs) >= 8 {
								run.Count("fault_runs_skipped_after_8_hangs", 1)
								continue
							}
							r := c10Run(p, jb.binary, jb.port, prog, tierN, uint64(idx), flt)
							if os.Getenv("VERIF_DEBUG_C10") != "" && strings.Contains(what+prog.Name, os.Getenv("VERIF_DEBUG_C10")) {
								fmt.Fprintf(os.Stderr, "DEBUG %s %s L%d #%d %s acked=%v bad=%q inconcl=%q witness=%v\n", what, prog.Name, tierN, idx, flt, r.Acked, r.Bad, r.Inconcl, r.Witness)
							}
							run.Eval(1)
							run.Count("fault_runs", 1)
							if r.Acked {
								run.Count("faulted_commands_acknowledged", 1)
							}
							run.Distinct(fmt.Sprintf("%s|%s|L%d|%d|%s", what, prog.Name, tierN, idx, flt))
							run.SetAdd("fault_kinds", flt.String())
							if r.Inconcl != "" {
								run.Inconclusive(what + "|" + prog.Name + ": " + r.Inconcl)
							}
							if r.Bad != "" {
								if r.Hang {
									atomic.AddInt32(&hangs, 1)
								}
								r.Witness["config"] = jb.cfg
								r.Witness["program"] = prog
								r.Witness["fault"] = fmt.Sprintf("tier L%d request #%d: %s", tierN, idx, flt)
								fk := faultClass(flt)
								run.Violation(fmt.Sprintf("%s|%s|L%d %s|%s", what, prog.Name, tierN, fk, r.Bad), r.Witness)
							}
							if r.Restart || !p.Alive() {
								np, err := harness.StartProxy(jb.cfg)
								if err != nil {
									run.Inconclusive("cannot restart memproxy")
									return
								}
								p.Stop()
								p = np
							}
						}
					}
				}
			}
		}(ji, jb)
	}
	wg.Wait()
	run.Floor("fault_runs", 500)
	_ = bytes.Equal
	return run.Finish()
}

func faultClass(f fakemc.Fault) string {
	switch f.Kind {
	case fakemc.FaultStatus:
		if f.Status < 0x80 {
			return "benign error status"
		}
		return "server error status"
	case fakemc.FaultCloseBefore:
		return "close before processing"
	case fakemc.FaultCloseAfter:
		return "close after processing"
	case fakemc.FaultCloseMid:
		return "close mid-reply"
	}
	return "fault"
}

// mapTimeout turns a network timeout into wire.ErrWatchdog.
func mapTimeout(err error) error {
	var ne interface{ Timeout() bool }
	if errors.As(err, &ne) && ne.Timeout() {
		return wire.ErrWatchdog
	}
	return err
}
