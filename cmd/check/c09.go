package main

import (
	"encoding/binary"
	"fmt"
	"strings"

	"github.com/netflix/rend/handlers/memcached/chunked"
	"math/rand"
	"sort"
	"time"

	"verif/evid"
	"verif/fakemc"
	"verif/harness"
	"verif/wire"
)

func init() { checks["C09"] = checkC09 }

// tierEntries returns, per client key, the live backend entries of a tier that belong to it.
func tierEntries(st *fakemc.Store, chunkedTier bool, keys []string) map[string][]fakemc.Entry {
	out := map[string][]fakemc.Entry{}
	snap := st.Snapshot()
	names := make([]string, 0, len(snap))
	for bk := range snap {
		names = append(names, bk)
	}
	sort.Strings(names)
	for _, bk := range names {
		for _, k := range keys {
			if !chunkedTier {
				if bk == k {
					out[k] = append(out[k], snap[bk])
					break
				}
				continue
			}
			idx := derivedIndex(k, bk)
			if idx == -2 {
				continue
			}
			// only entries that can serve the key count: the metadata entry and the chunks it
			// references (stale chunks of an earlier, longer value are unreachable)
			if idx >= 0 {
				meta, ok := snap[k+"-meta"]
				if !ok || len(meta.Value) < 12 || idx >= int(binary.BigEndian.Uint32(meta.Value[8:12])) {
					break
				}
			}
			out[k] = append(out[k], snap[bk])
			break
		}
	}
	return out
}

// ttlDiff compares the deadline of every live tier entry with the model's deadline.
func ttlDiff(s *session, keys []string, started time.Time) string {
	p := s.p
	chunkedL1 := p.Cfg.L1Kind == "chunked"
	// rend's chunked handler derives absolute times from its own (real) clock when it re-sets a
	// value for append/prepend: allow the real time elapsed in this case plus 2 s there only.
	tol := uint32(0)
	if chunkedL1 {
		tol = uint32(time.Now().Unix()) - p.L1.T0() + 2
		_ = started
	}
	near := func(a, b uint32, t uint32) bool {
		if a == b {
			return true
		}
		if a == 0 || b == 0 {
			return false
		}
		if a > b {
			return a-b <= t
		}
		return b-a <= t
	}
	l1 := tierEntries(p.L1, chunkedL1, keys)
	var l2 map[string][]fakemc.Entry
	if p.Cfg.L2 {
		l2 = tierEntries(p.L2, false, keys)
	}
	for _, k := range keys {
		it := s.m.Live(k)
		if it == nil {
			if len(l1[k]) > 0 {
				if chunkedL1 {
					// stale chunks are unreachable without live metadata; only metadata serves
					if _, ok := p.L1.Snapshot()[k+"-meta"]; !ok {
						continue
					}
				}
				return "L1 still holds a live entry for a key the client can no longer have (expired or deleted)"
			}
			if len(l2[k]) > 0 {
				return "L2 still holds a live entry for a key the client can no longer have (expired or deleted)"
			}
			continue
		}
		if p.Cfg.L2 {
			if len(l2[k]) != 1 {
				return "L2 lost a key before its expiry"
			}
			if l2[k][0].Deadline != it.Deadline {
				return describeDeadline("L2", l2[k][0].Deadline, it.Deadline)
			}
		} else if len(l1[k]) == 0 {
			return "the only tier lost a key before its expiry"
		}
		for _, e := range l1[k] {
			if !near(e.Deadline, it.Deadline, tol) {
				return describeDeadline("L1", e.Deadline, it.Deadline)
			}
		}
	}
	return ""
}

func describeDeadline(tier string, got, want uint32) string {
	switch {
	case got == 0:
		return tier + " entry never expires although the client asked for an expiry"
	case want == 0:
		return tier + " entry expires although the client asked for no expiry"
	case got > want:
		return tier + " entry expires later than last requested"
	}
	return tier + " entry expires earlier than last requested"
}

func checkC09(tier, replay string) int {
	run := evid.NewRun("C09", tier, "exploration")
	run.Rule("closed-loop sequences of set/add/replace/touch/gat/append/prepend/get/delete with TTL classes {0, 1000, 100000, 30d, 30d+1, absolute future, absolute past} and seeded L1 evictions on memproxy shapes x L1 backend {std, chunked, batched} x {text, binary}; " +
		"after EVERY command the deadline of every live entry of the key in every fake tier (for chunked L1: metadata and every chunk) is compared with the model's deadline on the shared virtual clock; " +
		"at the end the virtual clock is moved to just before / after each distinct deadline and read-only commands must hit / miss like the model. The fake L2 answers gete with remaining seconds or absolute time (both conventions). " +
		"distinct_nontrivial = distinct (configuration, protocol, port mode, op-kind+TTL-class sequence)")
	run.Assume("TTL classes are >= 1000 s apart; where rend derives absolute times from its own clock (chunked append/prepend) the tolerance is the case's real elapsed time + 2 s")
	nseq := run.Pick(20, 240)
	var cfgs []harness.ProxyCfg
	for _, kind := range []string{"std", "chunked", "batched"} {
		cfgs = append(cfgs, harness.ProxyCfg{L2: false, L1Kind: kind})
		cfgs = append(cfgs, harness.ProxyCfg{L2: true, L1Kind: kind})
		cfgs = append(cfgs, harness.ProxyCfg{L2: true, L1Kind: kind, GetEAbs: true})
	}
	cfgs = append(cfgs, harness.ProxyCfg{L2: true, L1Kind: "std", Locked: true, MultiReader: true})
	ops := []string{"set", "set", "add", "replace", "touch", "touch", "gat", "gat", "append", "prepend", "get", "get", "mget", "delete"}
	proxyPool(run, cfgs, 12, func(p *harness.Proxy, restart func() *harness.Proxy) {
		cfg := p.Cfg
		cname := cfg.Name()
		if cfg.GetEAbs {
			cname += "/gete-abs"
		}
		for _, binary := range []bool{true, false} {
			for _, pm := range portModes(cfg.L2) {
				g := newGen(run.Seed()*3000017 + int64(hashStr(cname+protoName(binary)+pm.Name)))
				for i := 0; i < nseq; i++ {
					keys := keyAlphabet(cfg.L1Kind)[:3]
					p.ResetStores()
					o := genOpts{Binary: binary, Keys: keys, MinLen: 6, MaxLen: 20, TTLs: ttlClassesFar, T0: p.L1.T0(),
						AllowGat: true, AllowMulti: true, Ports: pm.Ports, ValueLens: []int{0, 10, 1500, 2500}, Ops: ops}
					cmds := g.sequence(o)
					// re-anchor absolute TTLs on the clock origin runSeq will set (ResetStores inside runSeq)
					evict := make([][]string, len(cmds))
					for j := range cmds {
						if cfg.L2 && g.rng.Intn(3) == 0 {
							evict[j] = []string{keys[g.rng.Intn(len(keys))]}
						}
					}
					what := fmt.Sprintf("%s|%s|%s", cname, protoName(binary), pm.Name)
					var started time.Time
					mkHooks := func(ev [][]string) seqHooks {
						return seqHooks{
							before: func(s *session, j int, c wire.Cmd) {
								if j == 0 {
									started = time.Now()
								}
								if j < len(ev) {
									for _, k := range ev[j] {
										evictClientKey(p, k)
									}
								}
							},
							after: func(s *session, j int, c wire.Cmd, obs wire.Result) string {
								return ttlDiff(s, keys, started)
							},
						}
					}
					run.Eval(1)
					run.Count("commands", int64(len(cmds)))
					run.Count("deadline_comparisons", int64(len(cmds)*len(keys)))
					out := runSeqT0(p, binary, cmds, mkHooks(evict))
					run.Distinct(what + "|" + kindSeqLens(cmds))
					if i == 0 && binary && pm.Name == "main" {
						run.Sample(map[string]interface{}{"config": what, "commands": shortCmds(cmds, 10)})
					}
					if out.Err != nil {
						handleExecError(run, p, what, out, map[string]interface{}{"config": cfg, "commands": cmds})
						if p = restart(); p == nil {
							return
						}
						continue
					}
					if out.FailIdx >= 0 {
						reportSeqViolationT0(run, p, what, binary, cmds, out, func(c []wire.Cmd) seqHooks { return mkHooks(nil) }, evict)
						continue
					}
					// end-to-end: move the virtual clock around every distinct deadline
					if d, w := c09ReadBack(p, binary, cmds, keys, g.rng); d != "" {
						run.Violation(fmt.Sprintf("%s|read-back|%s", what, d), w)
					}
					run.Count("read_back_probes", 1)
				}
			}
		}
	})
	c09RealTime(run)
	run.Floor("deadline_comparisons", 2000)
	return run.Finish()
}

// evictClientKey discards the L1 entries of a client key (all derived entries for chunked).
func evictClientKey(p *harness.Proxy, k string) {
	if p.Cfg.L1Kind == "chunked" {
		var victims []string
		for bk := range p.L1.SnapshotAll() {
			if derivedIndex(k, bk) != -2 {
				victims = append(victims, bk)
			}
		}
		p.L1.Evict(victims...)
		return
	}
	p.L1.Evict(k)
}

// runSeqT0 is runSeq for sequences whose absolute TTLs were generated against an earlier clock
// origin: the stores are reset to the same origin the generator used.
func runSeqT0(p *harness.Proxy, binary bool, cmds []wire.Cmd, h seqHooks) seqOutcome {
	t0 := p.L1.T0()
	s := newSession(p, binary)
	defer s.close()
	p.L1.ResetAt(t0)
	p.L2.ResetAt(t0)
	for i, c := range cmds {
		if h.before != nil {
			h.before(s, i, c)
		}
		diff, obs, err := s.exec(c)
		if err != nil {
			return seqOutcome{FailIdx: i, Trace: s.trace, Err: err}
		}
		if diff == "" && h.after != nil {
			diff = h.after(s, i, c, obs)
			if diff != "" && len(s.trace) > 0 {
				s.trace[len(s.trace)-1].Diff = diff
			}
		}
		if diff != "" {
			return seqOutcome{FailIdx: i, Diff: diff, Trace: s.trace}
		}
	}
	return seqOutcome{FailIdx: -1, Trace: s.trace}
}

func reportSeqViolationT0(run *evid.Run, p *harness.Proxy, what string, binary bool, cmds []wire.Cmd, out seqOutcome,
	hooks func([]wire.Cmd) seqHooks, evict [][]string) {
	want := out.Diff
	prefix := cmds[:out.FailIdx+1]
	// first try without any eviction, then shrink
	withEv := true
	if o := runSeqT0(p, binary, prefix, hooks(prefix)); o.Err == nil && o.Diff == want {
		withEv = false
	}
	small := prefix
	if !withEv {
		small = shrink(prefix, want, func(c []wire.Cmd) string {
			if !p.Alive() {
				return ""
			}
			o := runSeqT0(p, binary, c, hooks(c))
			if o.Err != nil {
				return ""
			}
			return o.Diff
		}, 150)
	}
	final := runSeqT0(p, binary, small, hooks(small))
	tr := final.Trace
	if withEv {
		tr = out.Trace
	}
	ev := ""
	if withEv {
		ev = "|with L1 evictions"
	}
	run.Violation(fmt.Sprintf("%s|%s%s|%s", what, kindSeqLens(small), ev, want), map[string]interface{}{
		"config": p.Cfg, "protocol": protoName(binary), "commands": small, "evictions": evict, "needs_evictions": withEv,
		"trace": tail(tr, 10), "l1": storeBrief(p, 1), "l2": storeBrief(p, 2), "virtual_now": p.L1.Now(),
	})
}

// c09ReadBack replays the sequence's final state check: for each distinct model deadline the
// virtual clock is set 500 s before and 500 s after it and every key is read.
func c09ReadBack(p *harness.Proxy, binary bool, cmds []wire.Cmd, keys []string, rng *rand.Rand) (string, map[string]interface{}) {
	// rebuild the final state (the stores were left in it by the run that just passed)
	s := newSession(p, binary)
	defer s.close()
	// the model has to be rebuilt: replay the commands on a model only
	t0 := p.L1.T0()
	for _, c := range cmds {
		expected(s.m, c, binary)
	}
	var deadlines []uint32
	seen := map[uint32]bool{}
	for _, k := range keys {
		if it := s.m.Live(k); it != nil && it.Deadline != 0 && !seen[it.Deadline] {
			seen[it.Deadline] = true
			deadlines = append(deadlines, it.Deadline)
		}
	}
	sort.Slice(deadlines, func(i, j int) bool { return deadlines[i] < deadlines[j] })
	for _, d := range deadlines {
		for _, delta := range []int64{-500, 500} {
			off := int64(d) - int64(t0) + delta
			if off < 0 {
				continue
			}
			p.L1.SetOffset(uint32(off))
			p.L2.SetOffset(uint32(off))
			for _, k := range keys {
				c := wire.Cmd{Op: "get", Keys: []string{k}, Opaque: 0x7000 + uint32(rng.Intn(1000))}
				diff, obs, err := s.exec(c)
				if err != nil {
					return "", nil
				}
				if diff != "" {
					when := "before"
					if delta > 0 {
						when = "after"
					}
					kind := "a key is served after the expiry last requested"
					if len(obs.Values) == 0 {
						kind = "a key is lost before the expiry last requested"
					}
					return fmt.Sprintf("%s (read 500 s %s a deadline)", kind, when), map[string]interface{}{
						"config": p.Cfg, "commands": cmds, "deadline": d, "virtual_now": p.L1.Now(), "key": k, "trace": tail(s.trace, 4),
						"l1": storeBrief(p, 1), "l2": storeBrief(p, 2)}
				}
			}
		}
	}
	return "", nil
}

// c09RealTime covers what a standing virtual clock cannot: the chunked handler re-inserts a
// value on append / prepend with an expiry derived from ITS clock, so real time has to pass
// between the set and the append to tell "keeps the expiry" from "restarts the TTL". All
// scenarios share one 4 s sleep; the fake backend follows the real clock here.
func c09RealTime(run *evid.Run) {
	type sc struct {
		name string
		op   string
		ttl  uint32 // relative TTL of the initial set (0 = use touchTTL after a set without TTL)
		then string // "" | "touch" | "gat": a TTL change before the sleep
		ttl2 uint32
	}
	scs := []sc{
		{"set-append", "append", 1000, "", 0}, {"set-prepend", "prepend", 5000, "", 0},
		{"set-touch-append", "append", 1000, "touch", 9000}, {"set-gat-prepend", "prepend", 9000, "gat", 2000},
		{"set-append-multichunk", "append", 3000, "", 0},
		// a get-and-touch / touch that asks for the very TTL the value was stored with still
		// restarts it: counted from the command, for the metadata and for every chunk
		{"set-gat-same-ttl", "gat", 1000, "", 0}, {"set-gat-same-ttl-multichunk", "gat", 3000, "", 0},
		{"set-touch-same-ttl-multichunk", "touch", 700, "", 0}, {"set-touch-gat-same-ttl", "gat", 50, "touch", 4000},
	}
	type inst struct {
		sc   sc
		st   *fakemc.Store
		h    chunked.Handler
		want uint32
		key  string
	}
	var insts []*inst
	for i, s := range scs {
		st := fakemc.NewStore("L1")
		st.SetRealClock(true)
		in := &inst{sc: s, st: st, h: chunked.NewHandler(st.Pipe()), key: fmt.Sprintf("rt%d", i)}
		vlen := 50
		if strings.Contains(s.name, "multichunk") {
			vlen = 2500
		}
		now := uint32(time.Now().Unix())
		r := handlerExec(in.h, wire.Cmd{Op: "set", Key: in.key, Value: makeValue(uint32(900+i), vlen), Flags: 7, TTL: s.ttl}, 0)
		in.want = now + s.ttl
		if s.then != "" {
			now = uint32(time.Now().Unix())
			r = handlerExec(in.h, wire.Cmd{Op: s.then, Key: in.key, TTL: s.ttl2, Opaque: 3}, 0)
			in.want = now + s.ttl2
		}
		if r.Class != "ok" {
			run.Inconclusive("real-time scenario " + s.name + ": set-up failed: " + r.Class)
			continue
		}
		insts = append(insts, in)
	}
	time.Sleep(4 * time.Second)
	for _, in := range insts {
		var r wire.Result
		if in.sc.op == "gat" || in.sc.op == "touch" {
			ttl := in.sc.ttl
			if in.sc.then != "" {
				ttl = in.sc.ttl2
			}
			now := uint32(time.Now().Unix())
			r = handlerExec(in.h, wire.Cmd{Op: in.sc.op, Key: in.key, TTL: ttl, Opaque: 5}, 0)
			in.want = now + ttl
		} else {
			r = handlerExec(in.h, wire.Cmd{Op: in.sc.op, Key: in.key, Value: []byte("-tail")}, 0)
		}
		run.Eval(1)
		run.Count("real_time_scenarios", 1)
		run.Distinct("realtime|" + in.sc.name)
		if r.Class != "ok" {
			run.Violation("chunked|real-time|"+in.sc.name+"|"+in.sc.op+" failed: "+classKind(r.Class), map[string]interface{}{"scenario": in.sc})
			continue
		}
		for bk, e := range in.st.Snapshot() {
			if derivedIndex(in.key, bk) == -2 {
				continue
			}
			diff := int64(e.Deadline) - int64(in.want)
			if diff < -2 || diff > 2 {
				kind := "later"
				if diff < 0 {
					kind = "earlier"
				}
				run.Violation(fmt.Sprintf("chunked|real-time|%s|after 4 s of real time %s leaves an entry with an expiry %s than last requested", in.sc.name, in.sc.op, kind),
					map[string]interface{}{"scenario": in.sc, "backend_entry": bk, "deadline": e.Deadline, "expected": in.want, "difference_s": diff})
				break
			}
		}
		in.h.Close()
	}
}
