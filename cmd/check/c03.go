package main

import (
	"bytes"
	"fmt"
	"math/rand"
	"os"
	"reflect"
	"runtime"
	"strconv"
	"strings"
	"sync"
	"sync/atomic"
	"time"

	"github.com/anishathalye/porcupine"
	"github.com/netflix/rend/common"
	"github.com/netflix/rend/handlers/memcached/std"
	"github.com/netflix/rend/orcas"

	"verif/evid"
	"verif/fakemc"
	"verif/harness"
	"verif/sched"
	"verif/wire"
)

func init() {
	checks["C03"] = checkC03
	children["C03"] = childC03
}

func checkC03(tier, replay string) int {
	run := evid.NewRun("C03", tier, "exploration")
	run.Rule("(1) controlled schedules on the real orchestrator code: each logical connection owns an orchestrator built by orcas.Locked(L1L2) / LockedWithExisting(L1L2Batch) over real std handlers connected to two shared fake backends; " +
		"the lockers of the lock set are replaced through the verif hook by scheduler-aware RW lockers; scheduling points are every Lock() and every backend request; programs of 2-3 connections x 1-3 commands over 1-2 keys, every command kind, " +
		"initial state absent / both tiers / L2 only, single- and multi-reader, main and batch orchestrators; DFS over all schedules (complete for the small programs), preemption-bounded and random beyond; " +
		"every history is checked with porcupine against the single-map model and the final stores for L1 subset of L2. " +
		"(2) free-running stress through the real memproxy --locked on main and batch ports with hot keys and backend reply delays; client-side histories checked with porcupine. " +
		"distinct_nontrivial = distinct schedule fingerprints of programs with >= 2 commands on one key + distinct stress histories")
	run.Assume("exhaustive over OUR scheduling points (lock acquisitions, backend requests); each fake backend request is atomic, as memcached's are")
	res := spawnChild(run, "C03", 40*time.Minute, nil)
	if res.TimedOut {
		run.Inconclusive("C03 child did not finish; last case: " + res.LastCase)
	} else if res.Crashed || res.ExitCode != 0 {
		run.Violation("locked orchestrator|process crashed|"+crashKind(res.Stderr), map[string]interface{}{"last_case": res.LastCase, "stderr_tail": lastLines(res.Stderr, 60)})
	}
	c03Stress(run)
	run.Floor("schedules_executed", 300)
	run.Floor("histories_checked", 300)
	return run.Finish()
}

// ---------------------------------------------------------------- scheduler-aware lockers

var gidToThread sync.Map // goroutine id -> logical thread

func goid() int64 {
	var buf [64]byte
	n := runtime.Stack(buf[:], false)
	// "goroutine 123 [running]:"
	s := buf[10:n]
	i := bytes.IndexByte(s, ' ')
	id, _ := strconv.ParseInt(string(s[:i]), 10, 64)
	return id
}

type lockState struct {
	writer  int // thread holding the write lock, -1 = none
	readers map[int]int
}

// schedLockSet is a lock set whose acquisitions are scheduling points.
type schedLockSet struct {
	ctl    *sched.Controller
	states []*lockState
	// monitor
	mu          sync.Mutex
	held        map[int]int // thread -> number of locks held
	maxHeld     int
	acquires    int
	doubleWrite bool
	lazySlots   int // empty slots of a lazily filled table that were given a fresh mutex
}

type schedLocker struct {
	set  *schedLockSet
	idx  int
	read bool
}

func (l *schedLocker) thread() int {
	if t, ok := gidToThread.Load(goid()); ok {
		return t.(int)
	}
	panic("schedLocker used from an unregistered goroutine")
}

func (l *schedLocker) Lock() {
	t := l.thread()
	st := l.set.states[l.idx]
	mode := "w"
	enabled := func() bool { return st.writer == -1 && len(st.readers) == 0 }
	if l.read {
		mode = "r"
		enabled = func() bool { return st.writer == -1 }
	}
	l.set.ctl.Yield(t, fmt.Sprintf("lock-%s[%d]", mode, l.idx), enabled)
	// only the scheduled thread runs: the state cannot change between the check and here
	if l.read {
		st.readers[t]++
	} else {
		if st.writer != -1 || len(st.readers) != 0 {
			l.set.doubleWrite = true
		}
		st.writer = t
	}
	l.set.mu.Lock()
	l.set.held[t]++
	l.set.acquires++
	if l.set.held[t] > l.set.maxHeld {
		l.set.maxHeld = l.set.held[t]
	}
	l.set.mu.Unlock()
}

func (l *schedLocker) Unlock() {
	t := l.thread()
	st := l.set.states[l.idx]
	if l.read {
		st.readers[t]--
		if st.readers[t] <= 0 {
			delete(st.readers, t)
		}
	} else {
		st.writer = -1
	}
	l.set.mu.Lock()
	l.set.held[t]--
	l.set.mu.Unlock()
}

// newSchedLockSet mirrors the STRUCTURE of the lock set the code under test built: which
// entries of the write and read tables are the same underlying mutex (by address; the RLocker
// of an RWMutex has the RWMutex's address) and which entries only take the read side (by
// dynamic type). A mis-built table - separate mutexes for readers and writers, one mutex
// shared by several stripes - therefore shows up in the controlled schedules too.
func newSchedLockSet(ctl *sched.Controller, origW, origR []sync.Locker) (*schedLockSet, []sync.Locker, []sync.Locker) {
	set := &schedLockSet{ctl: ctl, held: map[int]int{}}
	byAddr := map[uintptr]int{}
	stateOf := func(l sync.Locker) int {
		addr := reflect.ValueOf(l).Pointer()
		if i, ok := byAddr[addr]; ok {
			return i
		}
		set.states = append(set.states, &lockState{writer: -1, readers: map[int]int{}})
		byAddr[addr] = len(set.states) - 1
		return len(set.states) - 1
	}
	isReadSide := func(l sync.Locker) bool { return strings.HasSuffix(fmt.Sprintf("%T", l), "rlocker") }
	// A table that is filled lazily has empty slots: nothing to mirror there. Such a stripe gets
	// one fresh mutex shared by its write and its read entry (read side as the filled read
	// entries of the table have it), which is what a correctly built table would hold.
	isNil := func(l sync.Locker) bool {
		if l == nil {
			return true
		}
		v := reflect.ValueOf(l)
		return (v.Kind() == reflect.Ptr || v.Kind() == reflect.Interface) && v.IsNil()
	}
	readHint := false
	for _, l := range origR {
		if !isNil(l) && isReadSide(l) {
			readHint = true
		}
	}
	lazy := map[int]int{}
	lazyState := func(i int) int {
		if st, ok := lazy[i]; ok {
			return st
		}
		set.states = append(set.states, &lockState{writer: -1, readers: map[int]int{}})
		lazy[i] = len(set.states) - 1
		set.lazySlots++
		return lazy[i]
	}
	w := make([]sync.Locker, len(origW))
	r := make([]sync.Locker, len(origR))
	for i := range origW {
		if isNil(origW[i]) {
			w[i] = &schedLocker{set: set, idx: lazyState(i)}
			continue
		}
		w[i] = &schedLocker{set: set, idx: stateOf(origW[i]), read: isReadSide(origW[i])}
	}
	for i := range origR {
		if isNil(origR[i]) {
			r[i] = &schedLocker{set: set, idx: lazyState(i), read: readHint}
			continue
		}
		r[i] = &schedLocker{set: set, idx: stateOf(origR[i]), read: isReadSide(origR[i])}
	}
	return set, w, r
}

// ---------------------------------------------------------------- recording responder

type recResponder struct {
	gets   []common.GetResponse
	ends   int
	acked  bool
	errors []error
}

func (r *recResponder) reset()                                  { *r = recResponder{} }
func (r *recResponder) Set(opaque uint32, quiet bool) error     { r.acked = true; return nil }
func (r *recResponder) Add(opaque uint32, quiet bool) error     { r.acked = true; return nil }
func (r *recResponder) Replace(opaque uint32, quiet bool) error { r.acked = true; return nil }
func (r *recResponder) Append(opaque uint32, quiet bool) error  { r.acked = true; return nil }
func (r *recResponder) Prepend(opaque uint32, quiet bool) error { r.acked = true; return nil }
func (r *recResponder) Get(response common.GetResponse) error {
	cp := response
	cp.Data = append([]byte(nil), response.Data...)
	cp.Key = append([]byte(nil), response.Key...)
	r.gets = append(r.gets, cp)
	return nil
}
func (r *recResponder) GetEnd(opaque uint32, noopEnd bool) error { r.ends++; return nil }
func (r *recResponder) GetE(response common.GetEResponse) error  { return nil }
func (r *recResponder) GAT(response common.GetResponse) error {
	cp := response
	cp.Data = append([]byte(nil), response.Data...)
	r.gets = append(r.gets, cp)
	r.acked = true
	return nil
}
func (r *recResponder) Delete(opaque uint32) error           { r.acked = true; return nil }
func (r *recResponder) Touch(opaque uint32) error            { r.acked = true; return nil }
func (r *recResponder) Noop(opaque uint32) error             { return nil }
func (r *recResponder) Quit(opaque uint32, quiet bool) error { return nil }
func (r *recResponder) Version(opaque uint32) error          { return nil }
func (r *recResponder) Stat(opaque uint32) error             { return nil }
func (r *recResponder) Error(opaque uint32, reqType common.RequestType, err error, quiet bool) error {
	r.errors = append(r.errors, err)
	return nil
}

// orcaExec runs one command on an orchestrator and returns the history operations it produced.
func orcaExec(o orcas.Orca, res *recResponder, c wire.Cmd, client int, clock *int64) []porcupine.Operation {
	res.reset()
	call := atomic.AddInt64(clock, 1)
	var err error
	switch c.Op {
	case "set", "add", "replace", "append", "prepend":
		req := common.SetRequest{Key: []byte(c.Key), Data: append([]byte(nil), c.Value...), Flags: c.Flags, Exptime: c.TTL, Opaque: c.Opaque}
		switch c.Op {
		case "set":
			err = o.Set(req)
		case "add":
			err = o.Add(req)
		case "replace":
			err = o.Replace(req)
		case "append":
			err = o.Append(req)
		case "prepend":
			err = o.Prepend(req)
		}
	case "delete":
		err = o.Delete(common.DeleteRequest{Key: []byte(c.Key), Opaque: c.Opaque})
	case "touch":
		err = o.Touch(common.TouchRequest{Key: []byte(c.Key), Exptime: c.TTL, Opaque: c.Opaque})
	case "gat":
		err = o.Gat(common.GATRequest{Key: []byte(c.Key), Exptime: c.TTL, Opaque: c.Opaque})
	case "get":
		req := common.GetRequest{NoopEnd: c.NoopEnd, NoopOpaque: c.Opaque + uint32(len(c.Keys))}
		for i, k := range c.Keys {
			req.Keys = append(req.Keys, []byte(k))
			req.Opaques = append(req.Opaques, c.Opaque+uint32(i))
			req.Quiet = append(req.Quiet, c.NoopEnd || i != len(c.Keys)-1)
		}
		err = o.Get(req)
	}
	ret := atomic.AddInt64(clock, 1)
	class := errClass(err)
	var ops []porcupine.Operation
	switch c.Op {
	case "get":
		for i, k := range c.Keys {
			out := linOut{Class: class}
			for _, g := range res.gets {
				if g.Opaque == c.Opaque+uint32(i) && !g.Miss {
					out.Hit, out.Val, out.Flags = true, string(g.Data), g.Flags
				}
			}
			ops = append(ops, porcupine.Operation{ClientId: client, Input: linIn{"get", k, "", 0}, Call: call, Output: out, Return: ret})
		}
	case "gat":
		out := linOut{Class: class}
		for _, g := range res.gets {
			if !g.Miss {
				out.Hit, out.Val, out.Flags = true, string(g.Data), g.Flags
			}
		}
		ops = append(ops, porcupine.Operation{ClientId: client, Input: linIn{"gat", c.Key, "", 0}, Call: call, Output: out, Return: ret})
	default:
		ops = append(ops, porcupine.Operation{ClientId: client, Input: linIn{c.Op, c.Key, string(c.Value), c.Flags}, Call: call, Output: linOut{Class: class}, Return: ret})
	}
	return ops
}

// ---------------------------------------------------------------- controlled programs

type c03Thread struct {
	Batch bool       `json:"batch_port"`
	Cmds  []wire.Cmd `json:"cmds"`
}

type c03Program struct {
	Threads     []c03Thread `json:"threads"`
	Init        string      `json:"init"` // absent | both | l2only
	MultiReader bool        `json:"multi_reader"`
	Concurrency uint8       `json:"concurrency"`
}

func (p c03Program) desc() string {
	var parts []string
	for _, t := range p.Threads {
		s := kindSeq(t.Cmds)
		if t.Batch {
			s = "batch:" + s
		} else {
			s = "main:" + s
		}
		parts = append(parts, s)
	}
	mode := "sr"
	if p.MultiReader {
		mode = "mr"
	}
	return fmt.Sprintf("%s conc=%d init=%s | %s", mode, p.Concurrency, p.Init, strings.Join(parts, " || "))
}

type c03LockSets struct {
	mainConst  map[string]orcas.OrcaConst
	batchConst map[string]orcas.OrcaConst
	slot       map[string]uint32
	origW      map[string][]sync.Locker
	origR      map[string][]sync.Locker
}

// newC03LockSets creates one lock set per (mode, concurrency): orcas.Locked allocates from a
// global table of 1024 slots, so the sets are created once and re-armed through the hook.
func newC03LockSets() *c03LockSets {
	ls := &c03LockSets{mainConst: map[string]orcas.OrcaConst{}, batchConst: map[string]orcas.OrcaConst{}, slot: map[string]uint32{},
		origW: map[string][]sync.Locker{}, origR: map[string][]sync.Locker{}}
	for _, mr := range []bool{false, true} {
		for _, conc := range []uint8{1, 4} {
			k := fmt.Sprintf("%v/%d", mr, conc)
			oc, slot := orcas.Locked(orcas.L1L2, mr, conc)
			ls.mainConst[k] = oc
			ls.batchConst[k] = orcas.LockedWithExisting(orcas.L1L2Batch, slot)
			ls.slot[k] = slot
			// keep the lockers the code under test built: the scheduler-aware ones mirror them
			w, r := orcas.VerifLockers(slot)
			ls.origW[k] = append([]sync.Locker(nil), w...)
			ls.origR[k] = append([]sync.Locker(nil), r...)
		}
	}
	return ls
}

type c03Outcome struct {
	Bad     string
	Witness map[string]interface{}
	Err     error
	Overlap bool
}

var c03Values = func() [][]byte {
	var v [][]byte
	for i := 0; i < 64; i++ {
		v = append(v, makeValue(uint32(500+i), 6+i%5))
	}
	return v
}()

func c03Run(ls *c03LockSets, prog c03Program, ch *sched.Chooser) c03Outcome {
	key := fmt.Sprintf("%v/%d", prog.MultiReader, prog.Concurrency)
	l1 := fakemc.NewStore("L1")
	l2 := fakemc.NewStore("L2")
	t0 := l1.T0()
	l2.ResetAt(t0) // one virtual clock for both tiers: deadlines are compared at the end
	init := map[string]linState{}
	if prog.Init != "absent" {
		for _, k := range []string{"ka", "kb"} {
			v := "init-" + k
			l2.Put(k, []byte(v), 42, 0)
			if prog.Init == "both" {
				l1.Put(k, []byte(v), 42, 0)
			}
			init[k] = linState{true, v, 42}
		}
	}
	n := len(prog.Threads)
	ctl := sched.NewController(n, ch)
	set, w, r := newSchedLockSet(ctl, ls.origW[key], ls.origR[key])
	orcas.VerifSetLockers(ls.slot[key], w, r)

	connThread1 := map[int]int{}
	connThread2 := map[int]int{}
	type th struct {
		orca orcas.Orca
		res  *recResponder
		h1   std.Handler
		h2   std.Handler
	}
	ths := make([]th, n)
	for t := 0; t < n; t++ {
		c1, id1 := l1.PipeID()
		connThread1[id1] = t
		ths[t].h1 = std.NewHandler(c1)
		c2, id2 := l2.PipeID()
		connThread2[id2] = t
		ths[t].h2 = std.NewHandler(c2)
		ths[t].res = &recResponder{}
		if prog.Threads[t].Batch {
			ths[t].orca = ls.batchConst[key](ths[t].h1, ths[t].h2, ths[t].res)
		} else {
			ths[t].orca = ls.mainConst[key](ths[t].h1, ths[t].h2, ths[t].res)
		}
	}
	l1.SetGate(func(conn int, rq *fakemc.Req) {
		if t, ok := connThread1[conn]; ok {
			ctl.Yield(t, fmt.Sprintf("L1 op%02x %s", rq.Op, rq.Key), nil)
		}
	})
	l2.SetGate(func(conn int, rq *fakemc.Req) {
		if t, ok := connThread2[conn]; ok {
			ctl.Yield(t, fmt.Sprintf("L2 op%02x %s", rq.Op, rq.Key), nil)
		}
	})
	var clock int64
	var mu sync.Mutex
	var history []porcupine.Operation
	var wg sync.WaitGroup
	for t := 0; t < n; t++ {
		wg.Add(1)
		go func(t int) {
			defer wg.Done()
			gidToThread.Store(goid(), t)
			defer gidToThread.Delete(goid())
			for _, c := range prog.Threads[t].Cmds {
				ops := orcaExec(ths[t].orca, ths[t].res, c, t, &clock)
				mu.Lock()
				history = append(history, ops...)
				mu.Unlock()
			}
			ctl.Done(t)
		}(t)
	}
	err := ctl.Run(30 * time.Second)
	if err != nil {
		ctl.ReleaseAll()
		l1.SetGate(nil)
		l2.SetGate(nil)
		l1.CutAll()
		l2.CutAll()
		done := make(chan struct{})
		go func() { wg.Wait(); close(done) }()
		select {
		case <-done:
		case <-time.After(5 * time.Second):
		}
		if err == sched.ErrDeadlock {
			return c03Outcome{Bad: "deadlock: commands wait for key locks that are never released", Witness: map[string]interface{}{"schedule": ch.Trace}}
		}
		return c03Outcome{Err: err}
	}
	wg.Wait()
	l1.SetGate(nil)
	l2.SetGate(nil)
	for _, t := range ths {
		t.h1.Close()
		t.h2.Close()
	}
	out := c03Outcome{Witness: map[string]interface{}{}}
	all := append(initOps(init), history...)
	ok, inconcl, desc := checkLinearizable(all, 60*time.Second)
	if inconcl {
		return c03Outcome{Err: fmt.Errorf("linearizability checker timed out")}
	}
	if !ok {
		out.Bad = "history is not linearizable with respect to the single-map model"
		out.Witness["history"] = desc
	} else if set.doubleWrite {
		out.Bad = "a write lock was granted while the lock was held"
	} else {
		// L1 must hold no entry that differs from L2's
		s1, s2 := l1.Snapshot(), l2.Snapshot()
		for k, e1 := range s1 {
			e2, ok := s2[k]
			if !ok {
				out.Bad = "after all commands completed L1 holds a key that L2 lacks"
			} else if !bytes.Equal(e1.Value, e2.Value) || e1.Flags != e2.Flags {
				out.Bad = "after all commands completed an L1 entry differs from L2's"
			} else if e1.Deadline != e2.Deadline {
				out.Bad = "after all commands completed an L1 entry's expiry differs from L2's"
			}
			if out.Bad != "" {
				out.Witness["key"] = k
				out.Witness["l1"] = fmt.Sprintf("%q flags=%d deadline=%d", e1.Value, e1.Flags, e1.Deadline)
				if ok {
					out.Witness["l2"] = fmt.Sprintf("%q flags=%d deadline=%d", e2.Value, e2.Flags, e2.Deadline)
				}
				out.Witness["history"] = desc
				break
			}
		}
	}
	if out.Bad != "" {
		out.Witness["schedule"] = ch.Trace
		out.Witness["program"] = prog
		var hs []string
		for _, op := range history {
			hs = append(hs, fmt.Sprintf("client %d [%d,%d] %s", op.ClientId, op.Call, op.Return, linModel.DescribeOperation(op.Input, op.Output)))
		}
		out.Witness["completed_operations"] = hs
	}
	return out
}

func c03Cmd(kind string, key string, vi *int, opaque uint32) wire.Cmd {
	c := wire.Cmd{Key: key, Opaque: opaque}
	val := func() []byte {
		*vi++
		return c03Values[*vi%len(c03Values)]
	}
	ttl := func() uint32 {
		*vi++
		return []uint32{0, 1000, 5000, 9000, 20000}[*vi%5]
	}
	switch kind {
	case "set", "add", "replace":
		c.Op, c.Value, c.Flags, c.TTL = kind, val(), uint32(1000+*vi), ttl()
	case "append", "prepend":
		c.Op, c.Value = kind, val()
	case "delete":
		c.Op = kind
	case "touch", "gat":
		c.Op, c.TTL = kind, ttl()
	case "get":
		c = wire.Cmd{Op: "get", Keys: []string{key}, Opaque: opaque}
	case "mget":
		other := "kb"
		if key == "kb" {
			other = "ka"
		}
		c = wire.Cmd{Op: "get", Keys: []string{other, key}, Opaque: opaque, NoopEnd: true}
	}
	return c
}

var c03Kinds = []string{"set", "add", "replace", "append", "prepend", "delete", "touch", "get", "gat", "mget"}

func childC03(args []string) int {
	run, finish := childRun("C03", "exploration")
	ls := newC03LockSets()
	rng := rand.New(rand.NewSource(run.Seed()*83 + 3))
	var progs []struct {
		p       c03Program
		bound   int
		maxRuns int
		random  bool
		class   string
	}
	add := func(p c03Program, bound, maxRuns int, random bool, class string) {
		progs = append(progs, struct {
			p       c03Program
			bound   int
			maxRuns int
			random  bool
			class   string
		}{p, bound, maxRuns, random, class})
	}
	portCombos := [][]bool{{false, false}, {false, true}, {true, true}}
	// complete 2x1 single-key programs
	for _, a := range c03Kinds {
		for _, b := range c03Kinds {
			for _, init := range []string{"absent", "both", "l2only"} {
				for _, mr := range []bool{false, true} {
					for pi, pc := range portCombos {
						if !run.Thorough() && (pi == 2 && init != "both") {
							continue
						}
						vi := 0
						p := c03Program{Init: init, MultiReader: mr, Concurrency: 1}
						p.Threads = []c03Thread{{Batch: pc[0], Cmds: []wire.Cmd{c03Cmd(a, "ka", &vi, 0x10)}}, {Batch: pc[1], Cmds: []wire.Cmd{c03Cmd(b, "ka", &vi, 0x20)}}}
						add(p, -1, 0, false, "2x1")
					}
				}
			}
		}
	}
	// 2x2 single-key programs: complete in the thorough tier, sampled in the quick tier
	n22 := run.Pick(120, 0)
	var all22 []c03Program
	for _, a1 := range c03Kinds {
		for _, a2 := range c03Kinds {
			for _, b1 := range c03Kinds {
				for _, b2 := range c03Kinds {
					vi := 0
					p := c03Program{Init: []string{"absent", "both", "l2only"}[rng.Intn(3)], MultiReader: rng.Intn(2) == 0, Concurrency: 1}
					pc := portCombos[rng.Intn(3)]
					p.Threads = []c03Thread{
						{Batch: pc[0], Cmds: []wire.Cmd{c03Cmd(a1, "ka", &vi, 0x10), c03Cmd(a2, "ka", &vi, 0x14)}},
						{Batch: pc[1], Cmds: []wire.Cmd{c03Cmd(b1, "ka", &vi, 0x20), c03Cmd(b2, "ka", &vi, 0x24)}}}
					all22 = append(all22, p)
				}
			}
		}
	}
	rng.Shuffle(len(all22), func(i, j int) { all22[i], all22[j] = all22[j], all22[i] })
	if n22 > 0 && n22 < len(all22) {
		all22 = all22[:n22]
	}
	for _, p := range all22 {
		// programs with two multi-key gets in multi-reader mode have hundreds of thousands of
		// schedules: the DFS is cut off per program; completeness is reported per class
		add(p, -1, 2500, false, "2x2")
	}
	// 3x1, 2x3 and two-key programs with preemption bound 3; larger random programs
	nb := run.Pick(60, 1500)
	for i := 0; i < nb; i++ {
		vi := 0
		p := c03Program{Init: []string{"absent", "both", "l2only"}[rng.Intn(3)], MultiReader: rng.Intn(2) == 0, Concurrency: []uint8{1, 4}[rng.Intn(2)]}
		kind := func() string { return c03Kinds[rng.Intn(len(c03Kinds))] }
		key := func() string { return []string{"ka", "kb"}[rng.Intn(2)] }
		switch i % 3 {
		case 0: // 3x1
			for t := 0; t < 3; t++ {
				p.Threads = append(p.Threads, c03Thread{Batch: rng.Intn(3) == 0, Cmds: []wire.Cmd{c03Cmd(kind(), "ka", &vi, uint32(0x10*(t+1)))}})
			}
		case 1: // 2x3
			for t := 0; t < 2; t++ {
				th := c03Thread{Batch: rng.Intn(3) == 0}
				for j := 0; j < 3; j++ {
					th.Cmds = append(th.Cmds, c03Cmd(kind(), "ka", &vi, uint32(0x10*(t+1)+4*j)))
				}
				p.Threads = append(p.Threads, th)
			}
		default: // two keys
			for t := 0; t < 2+rng.Intn(2); t++ {
				th := c03Thread{Batch: rng.Intn(3) == 0}
				for j := 0; j < 1+rng.Intn(2); j++ {
					th.Cmds = append(th.Cmds, c03Cmd(kind(), key(), &vi, uint32(0x10*(t+1)+4*j)))
				}
				p.Threads = append(p.Threads, th)
			}
		}
		add(p, 3, run.Pick(120, 300), false, "bounded")
	}
	nr := run.Pick(10, 300)
	for i := 0; i < nr; i++ {
		vi := 0
		p := c03Program{Init: []string{"absent", "both", "l2only"}[rng.Intn(3)], MultiReader: rng.Intn(2) == 0, Concurrency: []uint8{1, 4}[rng.Intn(2)]}
		for t := 0; t < 4+rng.Intn(3); t++ {
			th := c03Thread{Batch: rng.Intn(3) == 0}
			for j := 0; j < 5; j++ {
				th.Cmds = append(th.Cmds, c03Cmd(c03Kinds[rng.Intn(len(c03Kinds))], []string{"ka", "kb"}[rng.Intn(2)], &vi, uint32(0x100*(t+1)+4*j)))
			}
			p.Threads = append(p.Threads, th)
		}
		add(p, -1, run.Pick(40, 150), true, "random")
	}

	complete := map[string]bool{"2x1": true, "2x2": true}
	for pi, pr := range progs {
		var ex *sched.Explorer
		if pr.random {
			ex = sched.NewRandom(run.Seed()*1000+int64(pi), pr.maxRuns)
		} else {
			ex = sched.NewDFS(pr.bound, pr.maxRuns)
		}
		desc := pr.p.desc()
		for {
			ch := ex.Next()
			if ch == nil {
				break
			}
			announceCase(fmt.Sprintf("%s run %d: %s", pr.class, ex.Runs, desc))
			out := c03Run(ls, pr.p, ch)
			ch.Done()
			run.Eval(1)
			run.Count("schedules_executed", 1)
			run.Count("histories_checked", 1)
			if out.Err != nil {
				run.Inconclusive(pr.class + ": " + out.Err.Error() + ": " + desc)
				break
			}
			if out.Bad != "" {
				run.Violation(fmt.Sprintf("locked|controlled|%s|%s", c03ShortDesc(pr.p), out.Bad), out.Witness)
				break
			}
		}
		if !pr.random && pr.bound < 0 && !ex.Exhausted {
			complete[pr.class] = false
		}
		run.Count("programs_"+pr.class, 1)
		if !pr.random && pr.bound < 0 && ex.Exhausted {
			run.Count("programs_"+pr.class+"_with_every_schedule_enumerated", 1)
		}
		if pi%100 == 99 {
			// hand partial results to the parent now and then: a watchdog must not lose them
			if p := os.Getenv("VERIF_CHILD_EXPORT"); p != "" {
				run.Export(p)
			}
		}
		run.Count("distinct_schedules", int64(ex.Distinct()))
		for k := range ex.Prints {
			run.Distinct(fmt.Sprintf("%d|%x", pi, k))
		}
		if pi == 7 || (pr.class == "bounded" && pi%500 == 0) {
			run.Sample(map[string]interface{}{"class": pr.class, "program": desc, "schedules": ex.Runs, "distinct": ex.Distinct(), "dfs_complete": ex.Exhausted})
		}
	}
	run.Extra("controlled_2x1_all_schedules_enumerated", complete["2x1"])
	run.Extra("controlled_2x2_all_schedules_enumerated", complete["2x2"])
	return finish()
}

func c03ShortDesc(p c03Program) string {
	var parts []string
	for _, t := range p.Threads {
		var ks []string
		for _, c := range t.Cmds {
			k := c.Op
			if c.IsGet() && len(c.Keys) > 1 {
				k = "mget"
			}
			ks = append(ks, k)
		}
		s := strings.Join(ks, ",")
		if t.Batch {
			s = "batch:" + s
		} else {
			s = "main:" + s
		}
		parts = append(parts, s)
	}
	mode := "sr"
	if p.MultiReader {
		mode = "mr"
	}
	return mode + " init=" + p.Init + " " + strings.Join(parts, " || ")
}

// ---------------------------------------------------------------- free-running stress

// c03ColdStripes: the first commands that ever use a lock stripe arrive at the same moment on
// several connections (right after start-up, or any time with a large --concurrency): they too
// must exclude each other. Every round uses a fresh key (= with 2^12 stripes mostly a fresh
// stripe); all connections SET it at once with different values; when all are acknowledged the
// two tiers must hold the same value. The memproxy runs under the race detector.
func c03ColdStripes(run *evid.Run) {
	rounds := run.Pick(600, 6000)
	const nconn = 4
	for _, mr := range []bool{true, false} {
		cfg := harness.ProxyCfg{L2: true, L1Kind: "std", Locked: true, MultiReader: mr, Concurrency: 12, Race: true}
		p, err := harness.StartProxy(cfg)
		if err != nil {
			startFailure(run, cfg.Name(), err)
			return
		}
		var cls []*wire.Client
		for c := 0; c < nconn; c++ {
			cl, err := p.Dial(c%2, true)
			if err != nil {
				run.Inconclusive("cold stripes: dial: " + err.Error())
				p.Stop()
				return
			}
			cl.Watchdog = 60 * time.Second
			cls = append(cls, cl)
		}
		bad := 0
		for r := 0; r < rounds && bad == 0; r++ {
			key := fmt.Sprintf("cold.%v.%d", mr, r)
			var gate int32
			var wg sync.WaitGroup
			errs := make(chan string, nconn)
			for c := 0; c < nconn; c++ {
				wg.Add(1)
				go func(c int) {
					defer wg.Done()
					cmd := wire.Cmd{Op: "set", Key: key, Value: []byte(fmt.Sprintf("v%d.%d", r, c)), Flags: uint32(c), Opaque: uint32(r*8 + c)}
					atomic.AddInt32(&gate, 1)
					for spins := 0; atomic.LoadInt32(&gate) < nconn; spins++ {
						if spins > 20000 {
							runtime.Gosched()
						}
					}
					res, err := cls[c].Do(cmd)
					if err != nil || res.Class != "ok" {
						errs <- fmt.Sprintf("%v %v", res.Class, err)
					}
				}(c)
			}
			wg.Wait()
			run.Count("cold_stripe_rounds", 1)
			select {
			case e := <-errs:
				run.Inconclusive("cold stripes: a set failed: " + e)
				bad++
				continue
			default:
			}
			e1, ok1 := p.L1.Snapshot()[key]
			e2, ok2 := p.L2.Snapshot()[key]
			if !ok1 || !ok2 || string(e1.Value) != string(e2.Value) || e1.Flags != e2.Flags {
				bad++
				run.Violation("locked|stress|"+cfg.Name()+"|first commands on a fresh lock stripe: after all sets were acknowledged L1 and L2 hold different values",
					map[string]interface{}{"key": key, "round": r, "l1": string(e1.Value), "l2": string(e2.Value), "connections": nconn})
			}
			if r%200 == 199 {
				p.ResetStores()
			}
		}
		for _, cl := range cls {
			cl.Close()
		}
		run.Eval(1)
		run.Distinct(fmt.Sprintf("cold-stripes|%v", mr))
		for _, rr := range parseRaces(p.RaceReports()) {
			if rr.InRend && strings.Contains(rr.Text, "orcas.") {
				run.Violation("locked|stress|"+cfg.Name()+"|data race in the locking wrapper: "+rr.Pair, map[string]interface{}{"report": rr.Text})
			}
		}
		p.Stop()
	}
}

func c03Stress(run *evid.Run) {
	c03ColdStripes(run)
	nhist := run.Pick(12, 150)
	for _, mr := range []bool{true, false} {
		cfg := harness.ProxyCfg{L2: true, L1Kind: "std", Locked: true, MultiReader: mr, Concurrency: 2}
		p, err := harness.StartProxy(cfg)
		if err != nil {
			startFailure(run, cfg.Name(), err)
			return
		}
		rng := rand.New(rand.NewSource(run.Seed()*87 + 1))
		// widen windows: random backend requests are answered late
		delay := func(n uint64, r *fakemc.Req) fakemc.Fault {
			if n%5 == 0 {
				return fakemc.Fault{Kind: fakemc.FaultDelay, Delay: time.Duration(200+n%7*300) * time.Microsecond}
			}
			return fakemc.Fault{}
		}
		for h := 0; h < nhist/2; h++ {
			p.ResetStores()
			p.L1.ArmFaultFn(delay)
			p.L2.ArmFaultFn(delay)
			nconn := []int{6, 10, 16}[h%3]
			keys := []string{"hot1", "hot2", "hot3", "hot4"}[:3+h%2]
			var clock int64
			var mu sync.Mutex
			var history []porcupine.Operation
			var wg sync.WaitGroup
			fail := make(chan string, nconn)
			for c := 0; c < nconn; c++ {
				wg.Add(1)
				go func(c int) {
					defer wg.Done()
					port := c % 2
					binary := c%4 < 2
					cl, err := p.Dial(port, binary)
					if err != nil {
						fail <- "dial: " + err.Error()
						return
					}
					defer cl.Close()
					cl.Watchdog = 60 * time.Second
					r := rand.New(rand.NewSource(run.Seed()*91 + int64(h*1000+c)))
					for i := 0; i < 4; i++ {
						k := keys[r.Intn(len(keys))]
						kinds := c03Kinds
						kind := kinds[r.Intn(len(kinds))]
						if kind == "gat" && !binary {
							kind = "get"
						}
						vi := c*100 + i
						v := makeValue(uint32(h*100000+c*100+i), 5+r.Intn(10))
						cmd := wire.Cmd{Key: k, Opaque: uint32(c*1000 + i*10)}
						switch kind {
						case "set", "add", "replace":
							cmd.Op, cmd.Value, cmd.Flags = kind, v, uint32(vi)
						case "append", "prepend":
							cmd.Op, cmd.Value = kind, v
						case "delete", "touch", "gat":
							cmd.Op = kind
						case "get":
							cmd = wire.Cmd{Op: "get", Keys: []string{k}, Opaque: cmd.Opaque}
						case "mget":
							cmd = wire.Cmd{Op: "get", Keys: []string{keys[0], keys[1]}, Opaque: cmd.Opaque, NoopEnd: binary}
						}
						call := atomic.AddInt64(&clock, 1)
						res, err := cl.Do(cmd)
						ret := atomic.AddInt64(&clock, 1)
						if err != nil || res.Class == "closed" || strings.HasPrefix(res.Class, "err:") || len(res.Anomalies) > 0 {
							fail <- fmt.Sprintf("%s: %v %v %v", cmd.Short(), res.Class, res.Anomalies, err)
							return
						}
						var ops []porcupine.Operation
						if cmd.IsGet() {
							for _, gk := range cmd.Keys {
								out := linOut{Class: "ok"}
								for _, val := range res.Values {
									if val.Key == gk {
										out.Hit, out.Val, out.Flags = true, string(val.Data), val.Flags
									}
								}
								ops = append(ops, porcupine.Operation{ClientId: c, Input: linIn{"get", gk, "", 0}, Call: call, Output: out, Return: ret})
							}
						} else if cmd.Op == "gat" {
							out := linOut{Class: res.Class}
							if len(res.Values) == 1 {
								out.Hit, out.Val, out.Flags = true, string(res.Values[0].Data), res.Values[0].Flags
							}
							ops = append(ops, porcupine.Operation{ClientId: c, Input: linIn{"gat", k, "", 0}, Call: call, Output: out, Return: ret})
						} else {
							ops = append(ops, porcupine.Operation{ClientId: c, Input: linIn{cmd.Op, k, string(cmd.Value), cmd.Flags}, Call: call, Output: linOut{Class: res.Class}, Return: ret})
						}
						mu.Lock()
						history = append(history, ops...)
						mu.Unlock()
					}
				}(c)
			}
			wg.Wait()
			close(fail)
			p.L1.DisarmFaults()
			p.L2.DisarmFaults()
			run.Eval(1)
			run.Count("stress_histories", 1)
			run.Count("histories_checked", 1)
			run.Count("stress_operations", int64(len(history)))
			run.Distinct(fmt.Sprintf("stress|%v|%d|%d", mr, h, len(history)))
			what := "locked|stress|" + cfg.Name()
			if f, bad := <-fail; bad {
				if !p.Alive() {
					run.Violation(what+"|server process exited", map[string]interface{}{"stderr_tail": lastLines(p.Stderr(), 40)})
					return
				}
				run.Inconclusive(what + ": a client command failed: " + f)
				continue
			}
			overl := 0
			for i := range history {
				for j := i + 1; j < len(history); j++ {
					a, b := history[i], history[j]
					if a.ClientId != b.ClientId && a.Input.(linIn).Key == b.Input.(linIn).Key && a.Call < b.Return && b.Call < a.Return {
						overl++
					}
				}
			}
			run.Count("stress_overlapping_operation_pairs", int64(overl))
			ok, inconcl, desc := checkLinearizable(history, 20*time.Second)
			if inconcl {
				run.Inconclusive(what + ": linearizability checker timed out")
				continue
			}
			if !ok {
				run.Violation(what+"|client-side history is not linearizable", map[string]interface{}{"config": cfg, "connections": nconn, "history": desc})
			}
			if d := inclusionDiff(p); d != "" {
				run.Violation(what+"|after all commands completed: "+d, map[string]interface{}{"l1": storeBrief(p, 1), "l2": storeBrief(p, 2)})
			}
			if h == 0 {
				run.Sample(map[string]interface{}{"kind": "stress", "config": cfg.Name(), "connections": nconn, "operations": len(history), "overlapping_pairs": overl})
			}
			_ = rng
		}
		p.Stop()
	}
}
