package main

import (
	"fmt"
	"math/rand"
	"runtime"
	"strings"
	"sync"
	"sync/atomic"
	"time"

	"github.com/netflix/rend/handlers"
	"github.com/netflix/rend/handlers/inmem"

	"verif/evid"
	"verif/model"
	"verif/wire"
)

func init() {
	checks["C17"] = checkC17
	children["C17seq"] = childC17Seq
	children["C17conc"] = childC17Conc
}

func checkC17(tier, replay string) int {
	run := evid.NewRun("C17", tier, "exploration")
	run.Rule("inmem.New(): (a) sequential differential against the reference map over random sequences of all handler methods (relative TTLs; expiry scenarios use TTL 1 + a 2.1 s sleep for 'must be absent' and TTL >= 1000 for 'must be present'); " +
		"other connections (further New() handles) are closed between the commands; (b) in a fresh process 8..32 goroutines construct the backend at the same moment (first use) and must see each other's keys; then 2..32 goroutines sharing the singleton under the race detector, mixing reads of missing keys, reads of own keys and writes: the child's exit status, its stderr (fatal error / race reports) and per-goroutine exact models are the monitors. " +
		"distinct_nontrivial = distinct op-kind sequences + distinct (goroutines, repeat) concurrent runs")
	run.Assume("inmem documents relative TTLs only; keys are namespaced per case because the singleton cannot be reset")
	res := spawnChild(run, "C17seq", 10*time.Minute, nil)
	if res.Crashed || res.TimedOut {
		run.Violation("inmem|sequential|process crashed|"+crashKind(res.Stderr), map[string]interface{}{"last_case": res.LastCase, "stderr_tail": lastLines(res.Stderr, 40)})
	}
	repeats := run.Pick(2, 3)
	for _, g := range []int{2, 8, 32} {
		for rep := 0; rep < repeats; rep++ {
			if !run.Thorough() && g == 2 && rep > 0 {
				continue
			}
			res := spawnChild(run, "C17conc", 10*time.Minute, nil, fmt.Sprint(g), fmt.Sprint(run.Pick(4000, 20000)), fmt.Sprint(rep))
			run.Eval(1)
			run.Distinct(fmt.Sprintf("conc|%d|%d", g, rep))
			races := parseRaces(res.Stderr)
			for _, r := range races {
				if r.InRend {
					run.Violation("inmem|concurrent|data race: "+r.Pair, map[string]interface{}{"goroutines": g, "report": r.Text})
				}
			}
			run.Count("race_reports", int64(len(races)))
			if res.TimedOut {
				run.Inconclusive(fmt.Sprintf("inmem concurrent run with %d goroutines did not finish", g))
			} else if res.Crashed || res.ExitCode != 0 {
				run.Violation("inmem|concurrent|process terminated: "+crashKind(res.Stderr), map[string]interface{}{"goroutines": g, "exit_code": res.ExitCode, "stderr_tail": lastLines(res.Stderr, 40)})
			}
		}
	}
	run.Floor("sequential_commands", 2000)
	run.Floor("concurrent_operations", 10000)
	return run.Finish()
}

func newInmem() handlers.Handler {
	h, _ := inmem.New()
	return h
}

func childC17Seq(args []string) int {
	run, finish := childRun("C17", "exploration")
	h := newInmem()
	g := newGen(run.Seed()*71 + 17)
	nseq := run.Pick(300, 2000)
	now := func() uint32 { return uint32(time.Now().Unix()) }
	ops := []string{"set", "set", "add", "add", "replace", "append", "prepend", "delete", "delete", "touch", "get", "get", "mget", "gat", "gete"}
	for i := 0; i < nseq; i++ {
		ns := fmt.Sprintf("s%d.%d.", run.Seed(), i)
		keys := []string{ns + "a", ns + "b", ns + "c"}
		m := model.New(now)
		o := genOpts{Binary: true, Keys: keys, MinLen: 10, MaxLen: 30, TTLs: []string{"0", "1000", "100000"}, T0: now(), AllowGat: true, AllowMulti: true, ValueLens: []int{0, 1, 10, 300}, Ops: opsNoGete(ops)}
		cmds := g.sequence(o)
		// sprinkle gete reads
		for j := range cmds {
			if cmds[j].Op == "get" && g.rng.Intn(3) == 0 {
				cmds[j].Op = "gete"
			}
		}
		announceCase("sequence " + kindSeq(cmds))
		run.Eval(1)
		run.Count("sequential_commands", int64(len(cmds)))
		run.Distinct("seq|" + kindSeq(cmds))
		if i == 0 {
			run.Sample(map[string]interface{}{"kind": "sequence", "commands": shortCmds(cmds, 12)})
		}
		var trace []traceEntry
		exec1 := func(cs []wire.Cmd, mm *model.Map, tr *[]traceEntry) string {
			type held struct{ live, copy []byte }
			var retained []held
			for _, c := range cs {
				exp := expected(mm, c, true)
				if len(c.Key)%3 == 0 || c.IsGet() && len(c.Keys) == 2 {
					// another connection of the same server ends: the shared instance lives on
					newInmem().Close()
					run.Count("other_connections_closed", 1)
				}
				obs := handlerExec(h, c, 0)
				d := diffResult(c, exp, obs, true)
				// a response handed out earlier is the client's: later commands must not change it
				for _, r := range retained {
					if string(r.live) != string(r.copy) {
						d = "a value returned by an earlier read changed after a later command (storage aliased with a response)"
					}
				}
				for _, v := range obs.Values {
					retained = append(retained, held{v.Data, append([]byte(nil), v.Data...)})
				}
				if strings.HasPrefix(obs.Class, "panic:") {
					d = "handler panicked"
				}
				if d == "" && c.Op == "gete" {
					// inmem reports the absolute expiry; TTL classes are >= 1000 s apart
					for _, v := range obs.Values {
						it := mm.Live(v.Key)
						if it == nil {
							continue
						}
						switch {
						case it.Deadline == 0 && v.Exptime != 0:
							d = "gete reports an expiry for an entry that must never expire"
						case it.Deadline != 0 && v.Exptime == 0:
							d = "gete reports no expiry for an entry with a TTL"
						case it.Deadline != 0 && (v.Exptime+3 < it.Deadline || v.Exptime > it.Deadline+3):
							d = "gete reports an expiry that differs from the TTL last requested"
						}
					}
				}
				if tr != nil {
					*tr = append(*tr, traceEntry{Cmd: c.Short(), Expected: brief(exp), Observed: brief(obs), Diff: d})
				}
				if d != "" {
					return d
				}
			}
			return ""
		}
		if d := exec1(cmds, m, &trace); d != "" {
			// shrink on fresh key namespaces
			n := 0
			small := shrink(cmds[:len(trace)], d, func(cand []wire.Cmd) string {
				n++
				ren := renameKeys(cand, fmt.Sprintf("%sr%d.", ns, n))
				return exec1(ren, model.New(now), nil)
			}, 150)
			var tr2 []traceEntry
			exec1(renameKeys(small, ns+"final."), model.New(now), &tr2)
			run.Violation(fmt.Sprintf("inmem|sequential|%s|%s", kindSeqLens(small), d), map[string]interface{}{"commands": small, "trace": tail(tr2, 10)})
		}
	}
	// expiry scenarios: one shared sleep
	type scen struct {
		name string
		pre  []wire.Cmd
		post wire.Cmd
	}
	mk := func(name string, post wire.Cmd) scen {
		k := fmt.Sprintf("x%d.%s", run.Seed(), name)
		post.Key = k
		if post.IsGet() {
			post.Keys = []string{k}
			post.Key = ""
		}
		return scen{name, []wire.Cmd{{Op: "set", Key: k, Value: []byte("old"), Flags: 5, TTL: 1}}, post}
	}
	scens := []scen{
		mk("add-on-expired", wire.Cmd{Op: "add", Value: []byte("new"), TTL: 1000}),
		mk("replace-on-expired", wire.Cmd{Op: "replace", Value: []byte("new"), TTL: 1000}),
		mk("append-on-expired", wire.Cmd{Op: "append", Value: []byte("new")}),
		mk("touch-on-expired", wire.Cmd{Op: "touch", TTL: 1000}),
		mk("gat-on-expired", wire.Cmd{Op: "gat", TTL: 1000}),
		mk("get-on-expired", wire.Cmd{Op: "get"}),
		mk("delete-on-expired", wire.Cmd{Op: "delete"}),
		mk("gete-on-expired", wire.Cmd{Op: "gete"}),
	}
	// "must be present" scenarios: long TTLs survive the sleep, touch/gat extend a short TTL
	kp := fmt.Sprintf("p%d.", run.Seed())
	handlerExec(h, wire.Cmd{Op: "set", Key: kp + "long", Value: []byte("L"), TTL: 1000}, 0)
	handlerExec(h, wire.Cmd{Op: "set", Key: kp + "touched", Value: []byte("T"), TTL: 1}, 0)
	handlerExec(h, wire.Cmd{Op: "touch", Key: kp + "touched", TTL: 1000}, 0)
	handlerExec(h, wire.Cmd{Op: "set", Key: kp + "gatted", Value: []byte("G"), TTL: 1}, 0)
	handlerExec(h, wire.Cmd{Op: "gat", Key: kp + "gatted", TTL: 1000}, 0)
	handlerExec(h, wire.Cmd{Op: "set", Key: kp + "never", Value: []byte("N"), TTL: 0}, 0)
	handlerExec(h, wire.Cmd{Op: "set", Key: kp + "gat0", Value: []byte("G0"), TTL: 1}, 0)
	handlerExec(h, wire.Cmd{Op: "gat", Key: kp + "gat0", TTL: 0}, 0)
	handlerExec(h, wire.Cmd{Op: "set", Key: kp + "touch0", Value: []byte("T0"), TTL: 1}, 0)
	handlerExec(h, wire.Cmd{Op: "touch", Key: kp + "touch0", TTL: 0}, 0)
	handlerExec(h, wire.Cmd{Op: "set", Key: kp + "reset", Value: []byte("R"), TTL: 1}, 0)
	handlerExec(h, wire.Cmd{Op: "replace", Key: kp + "reset", Value: []byte("R2"), TTL: 0}, 0)
	handlerExec(h, wire.Cmd{Op: "set", Key: kp + "appended", Value: []byte("A"), TTL: 1}, 0)
	handlerExec(h, wire.Cmd{Op: "append", Key: kp + "appended", Value: []byte("B")}, 0)
	for _, s := range scens {
		for _, c := range s.pre {
			handlerExec(h, c, 0)
		}
	}
	time.Sleep(2100 * time.Millisecond)
	for _, s := range scens {
		m := model.New(now) // the key is absent by now
		exp := expected(m, s.post, true)
		obs := handlerExec(h, s.post, 0)
		run.Eval(1)
		run.Count("expiry_scenarios", 1)
		run.Distinct("expiry|" + s.name)
		if d := diffResult(s.post, exp, obs, true); d != "" {
			run.Violation("inmem|expiry|"+s.name+"|"+d, map[string]interface{}{"setup": "set key ttl=1; sleep 2.1s", "command": s.post.Short(), "expected": brief(exp), "observed": brief(obs)})
			continue
		}
		// the follow-up read must agree with the model as well (e.g. add on an expired key stores)
		follow := wire.Cmd{Op: "get", Keys: []string{s.pre[0].Key}, Opaque: 3}
		exp2 := expected(m, follow, true)
		obs2 := handlerExec(h, follow, 0)
		if d := diffResult(follow, exp2, obs2, true); d != "" {
			run.Violation("inmem|expiry|"+s.name+"|follow-up get: "+d, map[string]interface{}{"command": s.post.Short(), "expected": brief(exp2), "observed": brief(obs2)})
		}
	}
	for _, pk := range []struct{ k, v string }{{"long", "L"}, {"touched", "T"}, {"gatted", "G"}, {"never", "N"}, {"gat0", "G0"}, {"touch0", "T0"}, {"reset", "R2"}} {
		obs := handlerExec(h, wire.Cmd{Op: "get", Keys: []string{kp + pk.k}, Opaque: 1}, 0)
		run.Count("expiry_scenarios", 1)
		run.Distinct("present|" + pk.k)
		if len(obs.Values) != 1 || string(obs.Values[0].Data) != pk.v {
			run.Violation("inmem|expiry|entry with a long TTL lost before its expiry: "+pk.k, map[string]interface{}{"observed": brief(obs)})
		}
	}
	obs := handlerExec(h, wire.Cmd{Op: "get", Keys: []string{kp + "appended"}, Opaque: 1}, 0)
	if len(obs.Values) != 0 {
		run.Violation("inmem|expiry|append extended the lifetime of an entry", map[string]interface{}{"observed": brief(obs)})
	}
	return finish()
}

func opsNoGete(ops []string) []string {
	var out []string
	for _, o := range ops {
		if o != "gete" {
			out = append(out, o)
		}
	}
	return out
}

func renameKeys(cmds []wire.Cmd, prefix string) []wire.Cmd {
	out := make([]wire.Cmd, len(cmds))
	ren := func(k string) string {
		if i := strings.LastIndex(k, "."); i >= 0 {
			return prefix + k[i+1:]
		}
		return prefix + k
	}
	for i, c := range cmds {
		if c.Key != "" {
			c.Key = ren(c.Key)
		}
		if len(c.Keys) > 0 {
			ks := make([]string, len(c.Keys))
			for j, k := range c.Keys {
				ks[j] = ren(k)
			}
			c.Keys = ks
		}
		out[i] = c
	}
	return out
}

// childC17Conc: args = goroutines, operations per goroutine, repeat index.
func childC17Conc(args []string) int {
	run, finish := childRun("C17", "exploration")
	var ng, nops, rep int
	fmt.Sscan(args[0], &ng)
	fmt.Sscan(args[1], &nops)
	fmt.Sscan(args[2], &rep)
	// the first constructions of the backend in this process happen at the same moment on
	// several goroutines (a server with two listeners accepting their first connections): every
	// connection must end up on the one shared instance
	nfirst := maxInt(ng, 8)
	firstH := make([]handlers.Handler, nfirst)
	{
		var gate int32
		var fw sync.WaitGroup
		release := make(chan struct{})
		for gi := 0; gi < nfirst; gi++ {
			fw.Add(1)
			go func(gi int) {
				defer fw.Done()
				atomic.AddInt32(&gate, 1)
				<-release
				firstH[gi] = newInmem()
				handlerExec(firstH[gi], wire.Cmd{Op: "set", Key: fmt.Sprintf("first.%d.%d", rep, gi), Value: []byte(fmt.Sprint("v", gi)), Flags: uint32(gi)}, 0)
			}(gi)
		}
		for atomic.LoadInt32(&gate) < int32(nfirst) {
			runtime.Gosched()
		}
		close(release)
		fw.Wait()
		run.Count("concurrent_first_constructions", int64(nfirst))
	first:
		for gi := 0; gi < nfirst; gi++ {
			for other := 0; other < nfirst; other++ {
				r := handlerExec(firstH[gi], wire.Cmd{Op: "get", Keys: []string{fmt.Sprintf("first.%d.%d", rep, other)}, Opaque: 1}, 0)
				if len(r.Values) != 1 || string(r.Values[0].Data) != fmt.Sprint("v", other) {
					run.Violation("inmem|concurrent|backends constructed at the same moment do not share their data (a key set through one connection is missing through another)",
						map[string]interface{}{"constructed_concurrently": nfirst, "reader": gi, "writer": other, "observed": brief(r)})
					break first
				}
			}
		}
	}
	h := firstH[0]
	now := func() uint32 { return uint32(time.Now().Unix()) }
	// entries that have expired but are still in the map: reads of them must behave like reads
	// of missing keys, also when many goroutines read them at once
	nexp := 3000
	for i := 0; i < nexp; i++ {
		handlerExec(h, wire.Cmd{Op: "set", Key: fmt.Sprintf("expired.%d.%d", rep, i), Value: []byte("e"), TTL: 1}, 0)
	}
	time.Sleep(2100 * time.Millisecond)
	var wg sync.WaitGroup
	start := make(chan struct{})
	for gi := 0; gi < ng; gi++ {
		wg.Add(1)
		go func(gi int) {
			defer wg.Done()
			rng := rand.New(rand.NewSource(run.Seed()*1009 + int64(gi*31+rep)))
			ns := fmt.Sprintf("c%d.%d.%d.", run.Seed(), rep, gi)
			m := model.New(now)
			id := uint32(gi)<<20 | 1
			<-start
			// hot keys are read, touched and get-and-touched by every goroutine, but only their
			// owner changes their value: the owner's model of them stays exact, whatever the others do
			hot := func(j int) string { return fmt.Sprintf("hot.%d.%d", rep, j) }
			nhot := 4
			for i := 0; i < nops; i++ {
				var c wire.Cmd
				own := ns + fmt.Sprint(rng.Intn(4))
				if rng.Intn(4) == 0 {
					j := rng.Intn(nhot)
					if j%ng == gi%nhot && gi < nhot {
						own = hot(j) // this goroutine owns hot key j
					} else {
						// a foreign hot key: value-preserving commands only; results are not predictable
						// here, but a value must not change while we hold it
						fc := wire.Cmd{Op: []string{"get", "touch", "gat", "gete"}[rng.Intn(4)], Key: hot(j), Keys: []string{hot(j)}, TTL: 1000, Opaque: 1}
						if fc.Op == "touch" || fc.Op == "gat" {
							fc.Keys = nil
						} else {
							fc.Key = ""
						}
						r := handlerExec(h, fc, 0)
						run.Count("concurrent_operations", 1)
						for _, v := range r.Values {
							cp := append([]byte(nil), v.Data...)
							runtime.Gosched()
							if string(cp) != string(v.Data) {
								run.Violation("inmem|concurrent|a value returned by a read changes while the reader holds it", map[string]interface{}{"key": hot(j)})
								return
							}
						}
						continue
					}
				}
				switch rng.Intn(10) {
				case 0, 1, 2:
					// read of a key that nobody ever wrote, or of entries that expired a second ago
					c = wire.Cmd{Op: "get", Keys: []string{fmt.Sprintf("missing.%d.%d", gi, rng.Intn(1000))}, Opaque: 1}
					if rng.Intn(2) == 0 {
						c.Keys = []string{fmt.Sprintf("expired.%d.%d", rep, rng.Intn(nexp)), fmt.Sprintf("expired.%d.%d", rep, rng.Intn(nexp))}
						c.NoopEnd = true
					}
					if rng.Intn(2) == 0 {
						c.Op = "gete"
					}
				case 3, 4:
					c = wire.Cmd{Op: "get", Keys: []string{own, ns + "x", own}, Opaque: 1, NoopEnd: true}
				case 5, 6:
					c = wire.Cmd{Op: "set", Key: own, Value: makeValue(id, rng.Intn(200)), Flags: rng.Uint32(), TTL: 1000}
					id++
				case 7:
					c = wire.Cmd{Op: []string{"add", "replace", "append", "prepend"}[rng.Intn(4)], Key: own, Value: makeValue(id, rng.Intn(50)), TTL: 1000}
					id++
				case 8:
					c = wire.Cmd{Op: []string{"delete", "touch", "gat"}[rng.Intn(3)], Key: own, TTL: 1000}
				case 9:
					c = wire.Cmd{Op: "delete", Key: fmt.Sprintf("missing.%d.%d", gi, rng.Intn(1000))}
				}
				exp := expected(m, c, true)
				if i%97 == 96 {
					newInmem().Close() // a connection of its own that comes and goes
				}
				obs := handlerExec(h, c, 0)
				run.Count("concurrent_operations", 1)
				if d := diffResult(c, exp, obs, true); d != "" {
					run.Violation(fmt.Sprintf("inmem|concurrent|private-key model|%s|%s", c.Op, d), map[string]interface{}{
						"goroutines": ng, "command": c.Short(), "expected": brief(exp), "observed": brief(obs)})
					return
				}
			}
		}(gi)
	}
	close(start)
	wg.Wait()
	run.Sample(map[string]interface{}{"kind": "concurrent", "goroutines": ng, "operations_each": nops})
	return finish()
}
