package main

import (
	"bufio"
	"crypto/md5"
	"encoding/binary"
	"encoding/json"
	"fmt"
	"github.com/netflix/rend/consul"
	"math/rand"
	"net"
	"net/http"
	"net/http/httptest"
	"os/exec"
	"sort"
	"strings"
	"sync/atomic"
	"syscall"
	"time"
	"verif/harness"

	"github.com/netflix/rend/handlers/memcached/cluster"

	"verif/evid"
	"verif/fakemc"
	"verif/wire"
)

func init() {
	checks["C19"] = checkC19
	children["C19"] = childC19
}

func checkC19(tier, replay string) int {
	run := evid.NewRun("C19", tier, "exploration")
	run.Rule("cluster.New over harness-defined buckets with labels shaped like RemoteAddr strings; metamorphic oracles, no re-implementation of the routing decision: " +
		"(a) every permutation (all for <= 5 nodes, 50 random beyond) routes every probe identically, (b) removing node X re-routes only probes owned by X, (c) every node owns part of a large key sample; " +
		"probes = random keys plus ring locations 0, 2^32-1 and every ring point +-1 (points located independently via md5(label-k) only to place probes); " +
		"label sets searched (birthday search) to contain two nodes with an equal ring point; " +
		"end-to-end: two cluster handlers with different listing orders over TCP fake nodes, a set through one and a get through the other must reach the same node. " +
		"distinct_nontrivial = distinct (label set, permutation or removal) comparisons")
	res := spawnChild(run, "C19", 20*time.Minute, nil)
	if res.Crashed || res.TimedOut {
		if res.TimedOut {
			run.Inconclusive("C19 child did not finish; last case: " + res.LastCase)
		} else {
			run.Violation("cluster|process crashed|"+crashKind(res.Stderr), map[string]interface{}{"last_case": res.LastCase, "stderr_tail": lastLines(res.Stderr, 60)})
		}
	}
	run.Floor("probes_compared", 50000)
	run.Floor("end_to_end_keys", 100)
	return run.Finish()
}

type vBucket struct{ label string }

func (b vBucket) Label() string  { return b.label }
func (b vBucket) Weight() uint32 { return 1 }

func mkBuckets(labels []string) []cluster.Bucket {
	out := make([]cluster.Bucket, len(labels))
	for i, l := range labels {
		out[i] = vBucket{l}
	}
	return out
}

// ketamaPoints locates the ring points of a label (used only to decide where to probe).
func ketamaPoints(label string, hashes int) []uint32 {
	var pts []uint32
	for k := 0; k < hashes; k++ {
		d := md5.Sum([]byte(fmt.Sprintf("%s-%d", label, k)))
		for h := 0; h < 4; h++ {
			pts = append(pts, binary.LittleEndian.Uint32(d[h*4:]))
		}
	}
	return pts
}

type probeSet struct {
	keys [][]byte
	locs []uint32
}

func makeProbes(rng *rand.Rand, labels []string, nkeys int) probeSet {
	ps := probeSet{}
	for i := 0; i < nkeys; i++ {
		n := 1 + rng.Intn(40)
		b := make([]byte, n)
		rng.Read(b)
		ps.keys = append(ps.keys, b)
	}
	ps.locs = append(ps.locs, 0, 1, 1<<32-1, 1<<32-2, 1<<31)
	for _, l := range labels {
		for _, p := range ketamaPoints(l, 40) {
			ps.locs = append(ps.locs, p-1, p, p+1)
		}
	}
	return ps
}

func route(c *cluster.Continuum, ps probeSet) []string {
	out := make([]string, 0, len(ps.keys)+len(ps.locs))
	for _, k := range ps.keys {
		out = append(out, c.Hash(k).Label())
	}
	for _, l := range ps.locs {
		out = append(out, c.Bucket(l).Label())
	}
	return out
}

func permutations(n int) [][]int {
	var res [][]int
	var rec func(a []int, k int)
	rec = func(a []int, k int) {
		if k == len(a) {
			res = append(res, append([]int(nil), a...))
			return
		}
		for i := k; i < len(a); i++ {
			a[k], a[i] = a[i], a[k]
			rec(a, k+1)
			a[k], a[i] = a[i], a[k]
		}
	}
	a := make([]int, n)
	for i := range a {
		a[i] = i
	}
	rec(a, 0)
	return res
}

func probeDesc(ps probeSet, i int) string {
	if i < len(ps.keys) {
		return fmt.Sprintf("key %x", ps.keys[i])
	}
	return fmt.Sprintf("ring location %d", ps.locs[i-len(ps.keys)])
}

func childC19(args []string) int {
	run, finish := childRun("C19", "exploration")
	rng := rand.New(rand.NewSource(run.Seed()*97 + 19))
	sizes := []int{1, 2, 3, 5, 8, 32}
	nkeys := 20000
	if run.Thorough() {
		sizes = nil
		for i := 1; i <= 32; i++ {
			sizes = append(sizes, i)
		}
		nkeys = 100000
	}
	labelFor := func(i int) string {
		return fmt.Sprintf("10.%d.%d.%d:%d", rng.Intn(256), rng.Intn(256), 1+rng.Intn(254), 11211+rng.Intn(5))
	}
	checkSet := func(kind string, labels []string, nk int) {
		announceCase(fmt.Sprintf("%s label set of %d: %s", kind, len(labels), strings.Join(labels[:minInt(3, len(labels))], ",")))
		ps := makeProbes(rng, labels, nk)
		base := cluster.New(mkBuckets(labels))
		ref := route(base, ps)
		// (c) balance
		share := map[string]int{}
		for i := range ps.keys {
			share[ref[i]]++
		}
		if len(ps.keys) >= 2000*len(labels)/8 && len(ps.keys) >= 10000 {
			for _, l := range labels {
				if share[l] == 0 {
					run.Violation("cluster|"+kind+"|a node receives no key of a large sample", map[string]interface{}{"labels": labels, "node": l, "keys": len(ps.keys)})
				}
			}
		}
		// (a) permutations
		var perms [][]int
		if len(labels) <= 5 {
			perms = permutations(len(labels))
		} else {
			np := 50
			if nk < 10000 {
				np = 6
			}
			for i := 0; i < np; i++ {
				perms = append(perms, rng.Perm(len(labels)))
			}
			rev := make([]int, len(labels))
			for i := range rev {
				rev[i] = len(labels) - 1 - i
			}
			perms = append(perms, rev)
		}
		for _, p := range perms {
			pl := make([]string, len(labels))
			for i, j := range p {
				pl[i] = labels[j]
			}
			got := route(cluster.New(mkBuckets(pl)), ps)
			run.Eval(1)
			run.Count("probes_compared", int64(len(got)))
			run.Distinct(fmt.Sprintf("%s|%d|perm|%v|%s", kind, len(labels), p, labels[0]))
			for i := range got {
				if got[i] != ref[i] {
					what := "a key"
					if i >= len(ps.keys) {
						what = "a ring location"
					}
					run.Violation("cluster|"+kind+"|listing order changes the node chosen for "+what, map[string]interface{}{
						"labels": labels, "permuted": pl, "probe": probeDesc(ps, i), "node_in_listing_order": ref[i], "node_in_permuted_order": got[i]})
					break
				}
			}
		}
		// (a') a listing that repeats a label is the same SET of nodes
		if len(labels) >= 2 {
			for _, pos := range []int{0, len(labels) / 2, len(labels)} {
				dup := append([]string(nil), labels[:pos]...)
				dup = append(dup, labels[rng.Intn(len(labels))])
				dup = append(dup, labels[pos:]...)
				got := route(cluster.New(mkBuckets(dup)), ps)
				run.Eval(1)
				run.Count("probes_compared", int64(len(got)))
				run.Distinct(fmt.Sprintf("%s|%d|dup|%d|%s", kind, len(labels), pos, labels[0]))
				for i := range got {
					if got[i] != ref[i] {
						run.Violation("cluster|"+kind+"|a listing that repeats a node label routes differently from the plain node set", map[string]interface{}{
							"labels": labels, "listing": dup, "probe": probeDesc(ps, i), "plain": ref[i], "with_duplicate": got[i]})
						break
					}
				}
			}
		}
		// (a'') one Continuum re-used across a membership change (Reset) answers like a new one,
		// also for the very location it answered last
		if len(labels) > 1 {
			x := rng.Intn(len(labels))
			rest := append(append([]string(nil), labels[:x]...), labels[x+1:]...)
			fresh := cluster.New(mkBuckets(rest))
			nprobe := minInt(300, len(ps.locs))
			for t := 0; t < nprobe; t++ {
				loc := ps.locs[rng.Intn(len(ps.locs))]
				reused := cluster.New(mkBuckets(labels))
				before := reused.Bucket(loc).Label()
				reused.Reset(mkBuckets(rest))
				after := reused.Bucket(loc).Label()
				run.Count("probes_compared", 1)
				if want := fresh.Bucket(loc).Label(); after != want {
					run.Violation("cluster|"+kind+"|a ring re-used across a membership change keeps answering from the old node set", map[string]interface{}{
						"labels": labels, "removed": labels[x], "ring_location": loc, "before": before, "after_reset": after, "fresh_ring": want})
					break
				}
			}
			run.Eval(1)
			run.Distinct(fmt.Sprintf("%s|%d|reset|%s", kind, len(labels), labels[0]))
		}
		// (b) single-node removals
		if len(labels) > 1 {
			for x := range labels {
				if len(labels) > 8 && x%4 != 0 && !run.Thorough() {
					continue
				}
				rest := append(append([]string(nil), labels[:x]...), labels[x+1:]...)
				got := route(cluster.New(mkBuckets(rest)), ps)
				run.Eval(1)
				run.Count("probes_compared", int64(len(got)))
				run.Distinct(fmt.Sprintf("%s|%d|remove|%d|%s", kind, len(labels), x, labels[0]))
				for i := range got {
					if ref[i] != labels[x] && got[i] != ref[i] {
						run.Violation("cluster|"+kind+"|removing a node re-routes a probe that node did not own", map[string]interface{}{
							"labels": labels, "removed": labels[x], "probe": probeDesc(ps, i), "before": ref[i], "after": got[i]})
						break
					}
					if ref[i] == labels[x] && got[i] == labels[x] {
						run.Violation("cluster|"+kind+"|a removed node still receives probes", map[string]interface{}{"labels": labels, "removed": labels[x]})
						break
					}
				}
			}
		}
	}
	if !run.Thorough() {
		// every node count is visited in the quick tier too (with a smaller key sample): rounding
		// in the per-node point count can single out one particular count
		seen := map[int]bool{}
		for _, n := range sizes {
			seen[n] = true
		}
		for n := 1; n <= 32; n++ {
			if !seen[n] {
				sizes = append(sizes, n)
			}
		}
	}
	for si, n := range sizes {
		labels := make([]string, 0, n)
		seen := map[string]bool{}
		for len(labels) < n {
			l := labelFor(len(labels))
			if !seen[l] {
				seen[l] = true
				labels = append(labels, l)
			}
		}
		nk := nkeys
		if !run.Thorough() && si >= 6 {
			nk = 3000
		}
		checkSet("ordinary", labels, nk)
		if si == 2 {
			run.Sample(map[string]interface{}{"kind": "ordinary label set", "labels": labels, "random_keys": nkeys, "ring_probes": 3*160*len(labels) + 5})
		}
	}

	// labels longer than an IPv4 "ip:port": tcp6 remote addresses of one subnet and long host names,
	// which share a long common prefix (the label is whatever the bucket reports, of any length)
	for fi, n := range []int{3, 6, 8} {
		labels := make([]string, 0, n)
		seen := map[string]bool{}
		for len(labels) < n {
			var l string
			if fi%2 == 0 {
				l = fmt.Sprintf("[2001:db8:85a3:8d3:1319:8a2e:%x:%x]:11211", rng.Intn(65536), rng.Intn(65536))
			} else {
				l = fmt.Sprintf("cache-node-memcached-production-eu-west-1b-%05d.internal.example.net:11211", rng.Intn(100000))
			}
			if !seen[l] {
				seen[l] = true
				labels = append(labels, l)
			}
		}
		checkSet("long-label", labels, 20000)
	}

	// label sets containing two nodes with an equal ring point
	announceCase("collision search")
	nlab := run.Pick(12000, 40000)
	type pt struct {
		p uint32
		l int32
	}
	cand := make([]string, nlab)
	pts := make([]pt, 0, nlab*160)
	for i := range cand {
		cand[i] = fmt.Sprintf("10.%d.%d.%d:11211", (i>>16)&255, (i>>8)&255, i&255)
		for _, p := range ketamaPoints(cand[i], 40) {
			pts = append(pts, pt{p, int32(i)})
		}
	}
	sort.Slice(pts, func(i, j int) bool { return pts[i].p < pts[j].p })
	found := 0
	maxPairs := run.Pick(6, 40)
	for i := 1; i < len(pts) && found < maxPairs; i++ {
		if pts[i].p == pts[i-1].p && pts[i].l != pts[i-1].l {
			a, b := cand[pts[i-1].l], cand[pts[i].l]
			found++
			for _, extra := range []int{0, 1, 3} {
				labels := []string{a, b}
				for e := 0; e < extra; e++ {
					labels = append(labels, cand[rng.Intn(nlab)])
				}
				checkSet("colliding-point", labels, 2000)
			}
			if found == 1 {
				run.Sample(map[string]interface{}{"kind": "label set with a shared ring point", "labels": []string{a, b}, "point": pts[i].p})
			}
		}
	}
	run.Count("label_pairs_with_equal_ring_point", int64(found))

	// end-to-end over TCP fake nodes
	announceCase("end-to-end TCP")
	for _, n := range []int{3, 5} {
		var stores []*fakemc.Store
		var srvs []*fakemc.Server
		var addrs []string
		for i := 0; i < n; i++ {
			st := fakemc.NewStore(fmt.Sprintf("node%d", i))
			srv, err := fakemc.Listen(st, "tcp", "127.0.0.1:0")
			if err != nil {
				run.Inconclusive("cannot listen: " + err.Error())
				return finish()
			}
			stores, srvs, addrs = append(stores, st), append(srvs, srv), append(addrs, srv.Addr)
		}
		rev := make([]string, n)
		for i := range addrs {
			rev[n-1-i] = addrs[i]
		}
		h1, err1 := cluster.NewHandler(addrs, "c1")
		h2, err2 := cluster.NewHandler(rev, "c2")
		if err1 != nil || err2 != nil {
			run.Inconclusive(fmt.Sprintf("cluster.NewHandler: %v %v", err1, err2))
			return finish()
		}
		nk := run.Pick(300, 3000)
		for i := 0; i < nk; i++ {
			key := fmt.Sprintf("e2e-%d-%d", n, rng.Int63())
			val := makeValue(uint32(i), 10+i%50)
			w, r := h1, h2
			if i%2 == 1 {
				w, r = h2, h1
			}
			sres := handlerExec(w, wire.Cmd{Op: "set", Key: key, Value: val, Flags: uint32(i)}, 0)
			gres := handlerExec(r, wire.Cmd{Op: "get", Keys: []string{key}, Opaque: 1}, 0)
			run.Count("end_to_end_keys", 1)
			var setNode, getNode []string
			for j, st := range stores {
				for _, rq := range st.Log() {
					if rq.Key == key && rq.Op == fakemc.OpSet {
						setNode = append(setNode, addrs[j])
					}
					if rq.Key == key && rq.Op == fakemc.OpGet {
						getNode = append(getNode, addrs[j])
					}
				}
			}
			bad := ""
			switch {
			case sres.Class != "ok" || gres.Class != "ok":
				bad = "set or get through the cluster handler failed"
			case len(setNode) != 1 || len(getNode) != 1:
				bad = "a key's set or get did not reach exactly one node"
			case setNode[0] != getNode[0]:
				bad = "set and get of one key reached different nodes"
			case len(gres.Values) != 1 || string(gres.Values[0].Data) != string(val) || gres.Values[0].Flags != uint32(i):
				bad = "get through another handler does not return what was set"
			}
			if bad != "" {
				run.Violation("cluster|end-to-end|"+bad, map[string]interface{}{"nodes": addrs, "key": key, "set_node": setNode, "get_node": getNode, "set": sres.Class, "get": brief(gres)})
				break
			}
		}
		// multi-key (quiet) gets: every key of the batch must be asked on the node that holds it
		for b := 0; b < run.Pick(20, 150); b++ {
			var keys []string
			vals := map[string][]byte{}
			for j := 0; j < 8; j++ {
				k := fmt.Sprintf("e2e-m-%d-%d-%d", n, b, j)
				v := makeValue(uint32(b*8+j), 12)
				keys = append(keys, k)
				vals[k] = v
				if r := handlerExec(h1, wire.Cmd{Op: "set", Key: k, Value: v, Flags: 5}, 0); r.Class != "ok" {
					run.Violation("cluster|end-to-end|set or get through the cluster handler failed", map[string]interface{}{"key": k, "set": r.Class})
				}
			}
			g := handlerExec(h2, wire.Cmd{Op: "get", Keys: keys, Opaque: 100, NoopEnd: b%2 == 0}, 0)
			run.Count("end_to_end_keys", int64(len(keys)))
			if len(g.Anomalies) > 0 || len(g.Values) != len(keys) {
				missing := 0
				got := map[string]bool{}
				for _, v := range g.Values {
					got[v.Key] = true
				}
				for _, k := range keys {
					if !got[k] {
						missing++
					}
				}
				run.Violation("cluster|end-to-end|a multi-key get misses keys that are stored in the cluster", map[string]interface{}{
					"nodes": addrs, "keys": keys, "missing": missing, "anomalies": g.Anomalies})
				break
			}
			for _, v := range g.Values {
				if string(v.Data) != string(vals[v.Key]) {
					run.Violation("cluster|end-to-end|a multi-key get returns another key's value", map[string]interface{}{"key": v.Key})
				}
			}
		}
		run.Eval(1)
		run.Distinct(fmt.Sprintf("e2e|%d", n))
		used := 0
		for _, st := range stores {
			if st.LogLen() > 0 {
				used++
			}
		}
		if used != n {
			run.Violation("cluster|end-to-end|a node receives no key of a large sample", map[string]interface{}{"nodes": n, "nodes_used": used, "keys": nk})
		}
		// a connection set up while one node does not accept connections: it is either refused
		// or routes exactly like the connections set up before and after
		for down := 0; down < n; down += 2 {
			srvs[down].StopListening()
			h3, err3 := cluster.NewHandler(addrs, "c3")
			if err := srvs[down].StartListening(); err != nil {
				run.Inconclusive("cannot listen again on " + addrs[down] + ": " + err.Error())
				break
			}
			run.Count("constructions_with_a_node_down", 1)
			if err3 != nil {
				run.Count("constructions_refused_with_a_node_down", 1)
				continue
			}
			bad := ""
			var w map[string]interface{}
			for i := 0; i < run.Pick(150, 1500) && bad == ""; i++ {
				key := fmt.Sprintf("e2e-down-%d-%d-%d", n, down, i)
				val := makeValue(uint32(i), 16)
				a, b := h1, h3
				if i%2 == 1 {
					a, b = h3, h1
				}
				sres := handlerExec(a, wire.Cmd{Op: "set", Key: key, Value: val, Flags: 9}, 0)
				gres := handlerExec(b, wire.Cmd{Op: "get", Keys: []string{key}, Opaque: 2}, 0)
				run.Count("end_to_end_keys", 1)
				if sres.Class != "ok" || len(gres.Values) != 1 || string(gres.Values[0].Data) != string(val) {
					bad = "a connection set up while a node was unreachable routes keys differently from the other connections"
					w = map[string]interface{}{"nodes": addrs, "node_down_at_setup": addrs[down], "key": key, "set": sres.Class, "get": brief(gres)}
				}
			}
			if bad != "" {
				run.Violation("cluster|end-to-end|"+bad, w)
			}
			h3.Close()
		}
		h1.Close()
		h2.Close()
		for _, s := range srvs {
			s.Close()
		}
	}
	c19Deployment(run)
	return finish()
}

// c19Deployment: the node set as the cluster proxy really obtains and uses it. (1) the proxy
// binary itself, started twice over the same 12 nodes listed in two orders: a key set through
// one is found through the other and every node gets keys; (2) node discovery through Consul:
// the same registered instances (several per host) reported in two orders give the same set of
// addresses, one per instance.
func c19Deployment(run *evid.Run) {
	announceCase("cluster proxy binary")
	bin, err := harness.BuildApp("memcached_cluster_proxy.go")
	if err != nil {
		run.Inconclusive(err.Error())
	} else {
		for _, n := range []int{3, 12} {
			var stores []*fakemc.Store
			var srvs []*fakemc.Server
			var addrs []string
			for i := 0; i < n; i++ {
				st := fakemc.NewStore(fmt.Sprintf("pnode%d", i))
				srv, err := fakemc.Listen(st, "tcp", "127.0.0.1:0")
				if err != nil {
					run.Inconclusive("cannot listen: " + err.Error())
					return
				}
				stores, srvs, addrs = append(stores, st), append(srvs, srv), append(addrs, srv.Addr)
			}
			rev := make([]string, n)
			for i := range addrs {
				rev[n-1-i] = addrs[i]
			}
			start := func(nodes []string) (*exec.Cmd, int) {
				port, admin := harness.FreePort(), harness.FreePort()
				cmd := exec.Command(bin, "-p", fmt.Sprint(port), "-admin-port", fmt.Sprint(admin), "-source-hostnames", strings.Join(nodes, ","),
					"-destination-cluster-type", "noop", "-destination-hostnames", "unused:1")
				cmd.SysProcAttr = &syscall.SysProcAttr{Pdeathsig: syscall.SIGKILL}
				if err := cmd.Start(); err != nil {
					return nil, 0
				}
				return cmd, port
			}
			pa, portA := start(addrs)
			pb, portB := start(rev)
			stop := func() {
				for _, c := range []*exec.Cmd{pa, pb} {
					if c != nil {
						c.Process.Kill()
						c.Wait()
					}
				}
				for _, s := range srvs {
					s.Close()
				}
			}
			if pa == nil || pb == nil {
				run.Inconclusive("cannot start the cluster proxy")
				stop()
				continue
			}
			dial := func(port int) *wire.Client {
				for try := 0; try < 200; try++ {
					c, err := net.DialTimeout("tcp", fmt.Sprintf("127.0.0.1:%d", port), time.Second)
					if err == nil {
						return &wire.Client{Conn: c, R: bufio.NewReaderSize(c, 1<<16), Binary: true, Watchdog: 15 * time.Second}
					}
					time.Sleep(25 * time.Millisecond)
				}
				return nil
			}
			ca, cb := dial(portA), dial(portB)
			if ca == nil || cb == nil {
				run.Inconclusive("the cluster proxy does not accept connections")
				stop()
				continue
			}
			nk := run.Pick(300, 2000)
			lost := 0
			firstLost := ""
			for i := 0; i < nk; i++ {
				key := fmt.Sprintf("px-%d-%d", n, i)
				w, r := ca, cb
				if i%2 == 1 {
					w, r = cb, ca
				}
				sres, e1 := w.Do(wire.Cmd{Op: "set", Key: key, Value: []byte(key + "-v"), Flags: 3, Opaque: uint32(i*2 + 1)})
				gres, e2 := r.Do(wire.Cmd{Op: "get", Keys: []string{key}, Opaque: uint32(i*2 + 2)})
				if e1 != nil || e2 != nil {
					run.Inconclusive(fmt.Sprintf("cluster proxy: %v %v", e1, e2))
					break
				}
				if sres.Class != "ok" || len(gres.Values) != 1 || string(gres.Values[0].Data) != key+"-v" {
					lost++
					if firstLost == "" {
						firstLost = key
					}
				}
			}
			idle := 0
			for _, st := range stores {
				if st.LogLen() == 0 {
					idle++
				}
			}
			ca.Close()
			cb.Close()
			stop()
			run.Eval(1)
			run.Count("end_to_end_keys", int64(nk))
			run.Count("cluster_proxy_processes", 2)
			run.Distinct(fmt.Sprintf("deploy|proxy|%d", n))
			if lost > 0 {
				run.Violation("cluster|proxy binary|the same nodes listed in two orders: a key set through one proxy is not found through the other", map[string]interface{}{"nodes": n, "keys": nk, "lost": lost, "first": firstLost})
			} else if idle > 0 {
				run.Violation("cluster|proxy binary|a node receives no key of a large sample", map[string]interface{}{"nodes": n, "idle_nodes": idle, "keys": nk})
			}
		}
	}

	announceCase("consul discovery")
	type inst struct {
		host string
		port int
	}
	var insts []inst
	for h := 0; h < 4; h++ {
		for k := 0; k < 1+h%3; k++ {
			insts = append(insts, inst{fmt.Sprintf("10.0.0.%d", h+1), 11211 + k})
		}
	}
	var order atomic.Value
	order.Store(insts)
	srv := httptest.NewServer(http.HandlerFunc(func(w http.ResponseWriter, r *http.Request) {
		var out []map[string]interface{}
		for i, in := range order.Load().([]inst) {
			svcAddr := in.host
			if i%2 == 0 {
				svcAddr = "" // the node's address is used then
			}
			out = append(out, map[string]interface{}{
				"Node":    map[string]interface{}{"Node": "n-" + in.host, "Address": in.host},
				"Service": map[string]interface{}{"ID": fmt.Sprintf("mc-%s-%d", in.host, in.port), "Service": "memcached-cluster", "Address": svcAddr, "Port": in.port},
				"Checks":  []interface{}{},
			})
		}
		w.Header().Set("Content-Type", "application/json")
		json.NewEncoder(w).Encode(out)
	}))
	defer srv.Close()
	want := map[string]bool{}
	for _, in := range insts {
		want[fmt.Sprintf("%s:%d", in.host, in.port)] = true
	}
	rng := rand.New(rand.NewSource(run.Seed()*19 + 5))
	for trial := 0; trial < run.Pick(6, 40); trial++ {
		perm := append([]inst(nil), insts...)
		rng.Shuffle(len(perm), func(i, j int) { perm[i], perm[j] = perm[j], perm[i] })
		order.Store(perm)
		got, err := consul.GetNodes("memcached-cluster", strings.TrimPrefix(srv.URL, "http://"), "")
		run.Eval(1)
		run.Count("consul_discoveries", 1)
		run.Distinct(fmt.Sprintf("deploy|consul|%d", trial))
		if err != nil {
			run.Inconclusive("consul.GetNodes: " + err.Error())
			break
		}
		set := map[string]bool{}
		for _, a := range got {
			set[a] = true
		}
		bad := len(set) != len(want)
		for a := range want {
			if !set[a] {
				bad = true
			}
		}
		if bad {
			sort.Strings(got)
			run.Violation("cluster|consul discovery|the node set depends on the order in which the registered instances are reported", map[string]interface{}{"registered": len(want), "discovered": got})
			break
		}
	}
}
