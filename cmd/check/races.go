package main

import (
	"regexp"
	"sort"
	"strings"
)

// raceReport is one parsed "WARNING: DATA RACE" block.
type raceReport struct {
	Text   string
	InRend bool
	Pair   string // pair of innermost rend functions, line numbers stripped, sorted
}

var raceFuncRe = regexp.MustCompile(`(?m)^  (github\.com/netflix/rend/[^\s(]+(?:\([^)]*\))?[^\s(]*)\(`)

// parseRaces splits race detector output into reports and computes their signatures.
func parseRaces(out string) []raceReport {
	var reps []raceReport
	parts := strings.Split(out, "WARNING: DATA RACE")
	for _, p := range parts[1:] {
		end := strings.Index(p, "==================")
		if end >= 0 {
			p = p[:end]
		}
		r := raceReport{Text: "WARNING: DATA RACE" + p}
		if len(r.Text) > 6000 {
			r.Text = r.Text[:6000]
		}
		// sections: the two accesses come first ("Read at"/"Write at"/"Previous ... at")
		secs := regexp.MustCompile(`(?m)^(?:Read|Write|Previous read|Previous write|Atomic read|Atomic write|Previous atomic read|Previous atomic write)[^\n]*\n((?:  [^\n]*\n)+)`).FindAllStringSubmatch(p, -1)
		var fns []string
		for _, s := range secs {
			if len(fns) == 2 {
				break
			}
			fn := ""
			for _, l := range strings.Split(s[1], "\n") {
				l = strings.TrimSpace(l)
				if strings.HasPrefix(l, "github.com/netflix/rend/") {
					fn = l
					if i := strings.LastIndex(fn, "("); i > 0 {
						fn = fn[:i]
					}
					fn = strings.TrimPrefix(fn, "github.com/netflix/rend/")
					break
				}
			}
			if fn == "" {
				fn = "(non-rend frame)"
			} else {
				r.InRend = true
			}
			fns = append(fns, fn)
		}
		if !r.InRend && strings.Contains(p, "github.com/netflix/rend/") {
			r.InRend = true
		}
		sort.Strings(fns)
		r.Pair = strings.Join(fns, " <-> ")
		reps = append(reps, r)
	}
	return reps
}
