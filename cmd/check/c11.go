package main

import (
	"encoding/binary"
	"errors"
	"fmt"
	"io"
	"math/rand"
	"os"
	"os/exec"
	"path/filepath"
	"strings"
	"sync"
	"time"

	"verif/evid"
	"verif/harness"
	"verif/parsemon"
	"verif/wire"
)

func init() {
	checks["C11"] = checkC11
	children["C11"] = childC11
}

func checkC11(tier, replay string) int {
	run := evid.NewRun("C11", tier, "exploration")
	run.Rule("arbitrary client bytes: (1) exhaustive grid opcode 0x00..0xFF x key length x extras length x total body (incl. inconsistent and wrapped values) with 0-64 following bytes, " +
		"(2) mutations of valid requests (every single-bit flip of the header, truncation at every offset, length-field edits), (3) malformed text commands and runs of up to 40000 empty lines, (4) Go native coverage-guided fuzzing of both parsers " +
		"- all under the parser-level monitors (panic, heap allocation and goroutine-stack growth <= constant + consistently declared sizes + supplied bytes, reads <= input bytes, termination on EOF); " +
		"the same inputs go to the real memproxy over a socket: it must reply with an error or close that connection, keep running and keep serving a control connection; " +
		"inconsistent frames are also sent WITHOUT closing the client side: the server must not wait for the bogus length (set/append family: a wait inside the value read; key-only commands whose fixed-format bytes are all supplied and followed by a noop: any wait behind the header; state read from the goroutine dump). " +
		"distinct_nontrivial = distinct inputs by hash")
	run.Assume("memory is measured as Go heap allocation and stack memory (runtime/metrics), not RSS; inputs that consistently declare more than 1 MiB are skipped and counted")
	res := spawnChild(run, "C11", 25*time.Minute, nil)
	if res.Crashed || res.TimedOut {
		w := map[string]interface{}{"last_case": res.LastCase, "stderr_tail": lastLines(res.Stderr, 60)}
		if res.TimedOut {
			run.Violation("parser|does not return on EOF-terminated input (child watchdog)|", w)
		} else {
			run.Violation("parser|process crashed|"+crashKind(res.Stderr), w)
		}
	}
	c11Server(run)
	c11Fuzz(run)
	run.Floor("parser_inputs", 5000)
	run.Floor("server_inputs", 300)
	return run.Finish()
}

// c11Grid enumerates binary headers.
func c11Grid(full bool) [][]byte {
	var out [][]byte
	keyLens := []uint16{0, 1, 2, 250, 251, 65535}
	extLens := []byte{0, 4, 8, 9, 255}
	for op := 0; op < 256; op++ {
		for _, kl := range keyLens {
			for _, el := range extLens {
				ke := uint32(kl) + uint32(el)
				totals := []uint32{0, 1, ke, ke + 1, 1 << 31, 1<<32 - 1}
				if ke > 0 {
					totals = append(totals, ke-1)
				}
				for _, total := range totals {
					follow := []int{0, 16}
					if full {
						follow = []int{0, 1, 8, 16, 64}
					}
					for _, f := range follow {
						b := wire.BinHeader(byte(op), kl, el, total, 0x01020304)
						for i := 0; i < f; i++ {
							b = append(b, byte(i*37+op))
						}
						out = append(out, b)
					}
				}
			}
		}
	}
	// inconsistent frames whose key and extras are fully supplied: the parser gets as far as
	// sizing the data buffer (key lengths near 65535 exercise the width of the length check)
	for _, op := range []byte{0x01, 0x02, 0x03, 0x0e, 0x0f, 0x11, 0x12, 0x13, 0x19, 0x1a} {
		for _, kl := range []uint16{65535, 65534, 65528, 65280, 32768, 300} {
			for _, el := range []byte{0, 1, 4, 8, 9, 255} {
				ke := uint32(kl) + uint32(el)
				for _, total := range []uint32{0, 5, 16, ke - 1, 65535, uint32(kl)} {
					if total >= ke {
						continue
					}
					if !full && (kl != 65535 && kl != 300 || el == 9 || el == 255) {
						continue
					}
					b := wire.BinHeader(op, kl, el, total, 0x0a0b0c0d)
					body := make([]byte, int(ke)+16)
					for i := range body {
						body[i] = byte('a' + i%26)
					}
					out = append(out, append(b, body...))
				}
			}
		}
	}
	return out
}

func c11Mutations(rng *rand.Rand, nreq int, binary bool) [][]byte {
	var out [][]byte
	var opaque uint32
	for i := 0; i < nreq; i++ {
		c := c07Intent(rng, binary, &opaque)
		if len(c.Value) > 300 {
			c.Value = c.Value[:rng.Intn(300)]
		}
		var e []byte
		if binary {
			e = wire.EncodeBinary(c)
		} else {
			e = wire.EncodeText(c)
		}
		hdr := 24
		if !binary {
			hdr = len(e)
			if hdr > 40 {
				hdr = 40
			}
		}
		for bit := 0; bit < hdr*8 && bit/8 < len(e); bit++ {
			m := append([]byte(nil), e...)
			m[bit/8] ^= 1 << uint(bit%8)
			out = append(out, m)
		}
		for off := 0; off < len(e) && off < 400; off++ {
			out = append(out, append([]byte(nil), e[:off]...))
		}
		if binary && len(e) >= 24 {
			for _, v := range []uint32{0, 1, 0xFFFFFFFF, 0x7FFFFFFF} {
				m := append([]byte(nil), e...)
				binary_PutUint32(m[8:12], v)
				out = append(out, m)
				m2 := append([]byte(nil), e...)
				binary_PutUint32(m2[8:12], binary_Uint32(e[8:12])+v)
				out = append(out, m2)
			}
			for _, v := range []uint16{0, 1, 0xFFFF, 250, 251} {
				m := append([]byte(nil), e...)
				m[2], m[3] = byte(v>>8), byte(v)
				out = append(out, m)
			}
			for _, v := range []byte{0, 1, 4, 8, 255} {
				m := append([]byte(nil), e...)
				m[4] = v
				out = append(out, m)
			}
		}
	}
	return out
}

func binary_PutUint32(b []byte, v uint32) { binary.BigEndian.PutUint32(b, v) }
func binary_Uint32(b []byte) uint32       { return binary.BigEndian.Uint32(b) }

var c11TextForms = []string{
	"set\r\n", "set k\r\n", "set k 0\r\n", "set k 0 0\r\n", "set k 0 0 0 0\r\n", "set k a 0 1\r\nx\r\n", "set k 0 b 1\r\nx\r\n", "set k 0 0 c\r\n",
	"set k 0 0 -1\r\n", "set k 0 0 4294967296\r\n", "set k 0 0 99999999999999999999\r\n", "set k 4294967296 0 1\r\nx\r\n", "set k 0 4294967296 1\r\nx\r\n",
	"set k 0 0 5\r\nab", "set k 0 0 5\r\nabcde", "set k 0 0 5\r\nabcdefghij\r\n", "set k 0 0 1048577\r\n", "set  k 0 0 1\r\nx\r\n", "set k  0 0 1\r\nx\r\n",
	"get\r\n", "get \r\n", "get  \r\n", "get a  b\r\n", "gets a\r\n", "delete\r\n", "delete a b\r\n", "delete a 0\r\n", "touch\r\n", "touch a\r\n", "touch a b\r\n", "touch a -1\r\n", "touch a 4294967296\r\n",
	"noop x\r\n", "quit x\r\n", "version x\r\n", "stats x\r\n", "\r\n", "\n", "\r", " \r\n", "\x00\r\n", "get a\rget b\r\n", "get a\n", "GET a\r\n", "incr a 1\r\n", "decr a 1\r\n", "cas a 0 0 1 1\r\nx\r\n",
	"flush_all\r\n", "verbosity 1\r\n", "get " + strings.Repeat("k", 70000) + "\r\n", strings.Repeat("x", 70000), strings.Repeat("get a ", 5000) + "\r\n",
	"get a\r\n\x80\x01\x00\x01\r\n", "set k 0 0 x\r\n\x80abc\r\n", "noop\r\n\x80", "get a\r\n\x81\r\nget b\r\n", "delete k\r\n\xff\xfe\r\n",
	"set k 0 0 3\r\n\x80\x01\x00\r\n", "append k 0 0 0\r\n\r\n", "prepend k x y z\r\n", "get \x80\x00\r\n", "g", "ge", "get", "get a", "set k 0 0 2\r\n",
}

func childC11(args []string) int {
	run, finish := childRun("C11", "exploration")
	rng := rand.New(rand.NewSource(run.Seed()*53 + 11))
	examine := func(class string, binary bool, in []byte, step int) {
		announceCase(fmt.Sprintf("%s %s step=%d len=%d hex=%x", class, protoName(binary), step, len(in), in[:minInt(len(in), 48)]))
		r := parsemon.Check(binary, in, step)
		run.Eval(1)
		if r.Skipped {
			run.Count("parser_inputs_skipped_declared_over_1MiB", 1)
			return
		}
		run.Count("parser_inputs", 1)
		run.Count("parser_parse_calls", int64(r.Parses))
		run.Distinct(fmt.Sprintf("%v|%x", binary, hashBytes(in)))
		if binary && parsemon.InconsistentFirstFrame(in) {
			run.Count("inconsistent_frames_examined", 1)
		}
		if r.Violation != "" {
			opname := ""
			if binary && len(in) >= 2 {
				opname = fmt.Sprintf("opcode 0x%02x", in[1])
			} else if !binary {
				opname = firstWord(in)
			}
			run.Violation(fmt.Sprintf("parser|%s|%s|%s", protoName(binary), opname, canonAnomaly(r.Violation)), map[string]interface{}{
				"class": class, "input_hex": fmt.Sprintf("%x", in[:minInt(len(in), 256)]), "input_len": len(in), "read_step": step,
				"allocated": r.Allocated, "stack_growth": r.Stack, "bound": r.Bound, "reads": r.Reads, "parses": r.Parses, "last_error": r.LastErr,
			})
		}
	}
	grid := c11Grid(run.Thorough())
	for _, in := range grid {
		examine("grid", true, in, 0)
	}
	run.Sample(map[string]interface{}{"class": "grid", "inputs": len(grid), "example_hex": fmt.Sprintf("%x", grid[len(grid)/3])})
	nreq := run.Pick(25, 400)
	for _, binary := range []bool{true, false} {
		muts := c11Mutations(rng, nreq, binary)
		for i, in := range muts {
			examine("mutation", binary, in, (i%3)*1)
		}
		run.Count("mutations", int64(len(muts)))
	}
	// long runs of empty / blank request lines (keep-alive style): memory, stack included, must
	// not grow with the length of the run
	for _, unit := range []string{"\r\n", "\n", "  \r\n"} {
		for _, n := range []int{1000, 40000} {
			in := []byte(strings.Repeat(unit, n) + "get a\r\n")
			examine("empty-lines", false, in, 0)
			run.Count("empty_line_runs_examined", 1)
		}
	}
	for _, f := range c11TextForms {
		examine("text-form", false, []byte(f), 0)
		examine("text-form", false, []byte(f), 1)
		examine("text-form-as-binary", true, []byte(f), 0)
	}
	// concatenations: a malformed request followed by a valid one
	for i := 0; i < run.Pick(300, 5000); i++ {
		a := grid[rng.Intn(len(grid))]
		b := wire.EncodeBinary(wire.Cmd{Op: "set", Key: "kk", Value: []byte("vv"), Opaque: 9})
		examine("grid+valid", true, append(append([]byte(nil), a...), b...), 0)
	}
	run.Sample(map[string]interface{}{"class": "text-form", "example": c11TextForms[8]})
	return finish()
}

func hashBytes(b []byte) uint64 {
	h := uint64(14695981039346656037)
	for _, c := range b {
		h ^= uint64(c)
		h *= 1099511628211
	}
	return h
}

func firstWord(in []byte) string {
	s := string(in[:minInt(len(in), 12)])
	if i := strings.IndexAny(s, " \r\n"); i >= 0 {
		s = s[:i]
	}
	return fmt.Sprintf("%q", s)
}

// c11Server sends malformed inputs to the real memproxy.
func c11Server(run *evid.Run) {
	c11cfg := harness.ProxyCfg{L1Kind: "std", Race: true}
	p, err := harness.StartProxy(c11cfg)
	if err != nil {
		run.Inconclusive("cannot start memproxy: " + err.Error())
		return
	}
	defer func() { p.Stop() }()
	rng := rand.New(rand.NewSource(run.Seed()*59 + 3))
	var inputs []struct {
		class  string
		binary bool
		in     []byte
	}
	add := func(class string, binary bool, in []byte) {
		inputs = append(inputs, struct {
			class  string
			binary bool
			in     []byte
		}{class, binary, in})
	}
	grid := c11Grid(false)
	ng := run.Pick(250, 4000)
	for i := 0; i < ng; i++ {
		add("grid", true, grid[rng.Intn(len(grid))])
	}
	for _, binary := range []bool{true, false} {
		m := c11Mutations(rng, run.Pick(4, 40), binary)
		for i := 0; i < run.Pick(150, 3000) && i < len(m); i++ {
			add("mutation", binary, m[rng.Intn(len(m))])
		}
	}
	for _, f := range c11TextForms {
		add("text-form", false, []byte(f))
	}
	// quiet-get batches cut short inside a key (first and later frames), and very long batches
	for _, q := range []string{"getq", "geteq"} {
		op := byte(0x09)
		if q == "geteq" {
			op = 0x41
		}
		full := append(wire.BinHeader(op, 10, 0, 10, 7), []byte("0123456789")...)
		for _, cut := range []int{24, 25, 29, 33} {
			add("truncated-"+q, true, append([]byte(nil), full[:cut]...))
			add("truncated-"+q, true, append(append([]byte(nil), full...), full[:cut]...))
		}
	}
	// request headers cut short (the connection ends after 1..23 bytes of a header, also behind
	// complete requests): state shared between connections must survive it, so each of these is
	// followed at once by control connections
	{
		hdr := append(wire.BinHeader(0x00, 3, 0, 3, 0x1234), []byte("abc")...)
		set := append(wire.BinHeader(0x01, 2, 8, 11, 0x99), []byte{0, 0, 0, 1, 0, 0, 0, 0, 'k', 'x', 'v'}...)
		for rep := 0; rep < 3; rep++ {
			for _, cut := range []int{1, 2, 6, 12, 16, 23} {
				add("truncated-header", true, append([]byte(nil), hdr[:cut]...))
				add("truncated-header", true, append(append([]byte(nil), set...), hdr[:cut]...))
			}
		}
	}
	// key-only commands whose total body contradicts key + extras. Everything the command's fixed
	// format needs (touch / gat: 4 bytes of expiry, then the key) is supplied, followed by a
	// complete noop, and the client stays connected: a parser that still waits inside this
	// request waits for a length it derived from the contradictory fields
	{
		ops := []byte{0x00, 0x04, 0x1c, 0x1d, 0x40}
		kls := []uint16{3}
		if run.Thorough() {
			ops = []byte{0x00, 0x09, 0x0c, 0x0d, 0x04, 0x14, 0x1c, 0x1d, 0x1e, 0x40, 0x41}
			kls = []uint16{1, 3, 250}
		}
		for _, op := range ops {
			el := byte(0)
			if op == 0x1c || op == 0x1d || op == 0x1e {
				el = 4
			}
			for _, kl := range kls {
				ke := uint32(kl) + uint32(el)
				for _, total := range []uint32{0, uint32(kl) - 1, uint32(kl) + 1, ke - 1} {
					if total >= ke {
						continue
					}
					b := wire.BinHeader(op, kl, el, total, 0x0b0c0d0e)
					for i := 0; i < int(ke); i++ {
						b = append(b, byte('a'+i%26))
					}
					b = append(b, wire.BinHeader(0x0a, 0, 0, 0, 0x7778)...)
					add("inconsistent-keyonly", true, b)
				}
			}
		}
	}
	for _, n := range []int{4095, 4096, 4097, 10000} {
		var b []byte
		for i := 0; i < n; i++ {
			b = append(b, wire.BinHeader(0x09, 2, 0, 2, uint32(i))...)
			b = append(b, 'k', byte('a'+i%20))
		}
		b = append(b, wire.BinHeader(0x0a, 0, 0, 0, 0x7777)...)
		add(fmt.Sprintf("long-quiet-batch-%d", n), true, b)
	}
	control := func() string {
		cl, err := p.Dial(0, true)
		if err != nil {
			return "control connection refused"
		}
		defer cl.Close()
		cl.Watchdog = 15 * time.Second
		r1, e1 := cl.Do(wire.Cmd{Op: "set", Key: "ctl", Value: []byte("v"), Opaque: 1})
		r2, e2 := cl.Do(wire.Cmd{Op: "get", Keys: []string{"ctl"}, Opaque: 2})
		if e1 != nil || e2 != nil || r1.Class != "ok" || len(r2.Values) != 1 {
			return "control connection not served correctly"
		}
		return ""
	}
	ownsDebug := p.OwnsDebugPort()
	if !ownsDebug {
		run.Count("debug_port_not_owned", 1)
	}
	serverViolations := 0
	for i, inp := range inputs {
		in := inp.in
		var declared uint64
		if inp.binary || (len(in) > 0 && in[0] == 0x80) {
			declared = parsemon.DeclaredBinarySeq(in)
		} else {
			declared = parsemon.DeclaredText(in)
		}
		if declared > parsemon.MaxDeclared {
			run.Count("server_inputs_skipped_declared_over_1MiB", 1)
			continue
		}
		// without the debug port (another memproxy on this machine owns it) the state is read from a
		// SIGQUIT dump, which costs a proxy restart: only the key-only inputs are worth that
		noClose := inp.binary && parsemon.InconsistentFirstFrame(in) && (ownsDebug && i%2 == 0 || inp.class == "inconsistent-keyonly")
		if serverViolations >= 6 {
			run.Count("server_inputs_not_run_after_6_violations", 1)
			continue
		}
		cl, err := p.Dial(0, inp.binary)
		if err != nil {
			run.Violation("server|connection refused after malformed input", map[string]interface{}{"stderr_tail": lastLines(p.Stderr(), 30)})
			return
		}
		cl.Send(in)
		if !noClose {
			if cw, ok := cl.Conn.(interface{ CloseWrite() error }); ok {
				cw.CloseWrite()
			}
		}
		var n int64
		var rerr error
		if noClose {
			// wait (bounded) for a reply or a close, looking at the server's goroutines in
			// between: a connection goroutine back at "read the next header" is idle, which is
			// legitimate while the client stays connected; one still inside Parse behind the
			// header after 2 s waits for bytes the frame never consistently declared
			deadline := time.Now().Add(2 * time.Second)
			for {
				cl.Conn.SetReadDeadline(time.Now().Add(150 * time.Millisecond))
				var n2 int64
				n2, rerr = io.Copy(io.Discard, cl.R)
				n += n2
				if rerr == nil || !isTimeout(rerr) {
					break
				}
				if !ownsDebug {
					if time.Now().After(deadline) {
						break
					}
					continue
				}
				dump, derr := p.DebugGet("/debug/pprof/goroutine?debug=2")
				if derr == nil && !parkedInBody(dump) {
					rerr = nil
					run.Count("server_idle_after_inconsistent_frame", 1)
					break
				}
				if time.Now().After(deadline) {
					if derr == nil && !bogusWait(dump, inp.class) {
						// still reading the key / extras bytes the header itself declares
						rerr = nil
						run.Count("server_waits_for_declared_key_or_extras", 1)
					}
					break
				}
			}
		} else {
			cl.Conn.SetReadDeadline(time.Now().Add(10 * time.Second))
			n, rerr = io.Copy(io.Discard, cl.R)
			if rerr != nil && isTimeout(rerr) {
				// a loaded machine: one longer second chance before the state-based verdict
				run.Count("server_second_chance_waits", 1)
				cl.Conn.SetReadDeadline(time.Now().Add(30 * time.Second))
				var n2 int64
				n2, rerr = io.Copy(io.Discard, cl.R)
				n += n2
			}
		}
		if rerr != nil && !isTimeout(rerr) {
			// connection reset / broken pipe: the server closed the connection with unread input
			// in its receive queue, which TCP reports as a reset. That is a close.
			run.Count("server_closed_with_reset", 1)
			rerr = nil
		}
		run.Eval(1)
		run.Count("server_inputs", 1)
		run.Distinct(fmt.Sprintf("srv|%v|%x|%v", inp.binary, hashBytes(in), noClose))
		if noClose {
			run.Count("server_inconsistent_frames_without_client_close", 1)
		}
		sig := ""
		w := map[string]interface{}{"class": inp.class, "input_hex": fmt.Sprintf("%x", in[:minInt(len(in), 200)]), "input_len": len(in), "client_half_closed": !noClose, "reply_bytes": n}
		if !p.Alive() {
			sig = "server|process exited on malformed input"
			w["stderr_tail"] = lastLines(p.Stderr(), 40)
		} else if rerr != nil {
			// neither closed nor finished replying within the watchdog: decide from state
			dump := p.GoroutineDumpKill()
			w["goroutines"] = lastLines(filterDump(dump), 60)
			switch {
			case bogusWait(dump, inp.class):
				if parsemon.InconsistentFirstFrame(in) {
					sig = "server|waits for the bogus length of an inconsistent frame"
				} else if noClose {
					sig = ""
				} else {
					sig = "server|keeps waiting for a body although the client closed"
				}
			case len(blocksWith(dump, "server.(*DefaultServer).Loop", "[running]")) > 0 || len(blocksWith(dump, "server.(*DefaultServer).Loop", "[runnable]")) > 0:
				sig = "server|connection goroutine spinning"
			case noClose:
				// the client is still connected and the server is not inside a bogus wait: idle
				// (or reading bytes the header declares) is legitimate
				sig = ""
				run.Count("server_idle_after_inconsistent_frame_(sigquit_dump)", 1)
			default:
				sig = "server|connection neither answered with an error nor closed"
			}
			cl.Close()
			np, err := harness.StartProxy(c11cfg)
			if err != nil {
				run.Inconclusive("cannot restart memproxy")
				return
			}
			c11Races(run, p)
			p.Stop()
			p = np
			ownsDebug = p.OwnsDebugPort()
		}
		cl.Close()
		if sig != "" {
			kind := inp.class
			if inp.binary && len(in) >= 2 {
				kind += fmt.Sprintf(" opcode 0x%02x", in[1])
			}
			run.Violation(sig+"|"+kind, w)
			serverViolations++
			if !p.Alive() {
				np, err := harness.StartProxy(c11cfg)
				if err != nil {
					return
				}
				c11Races(run, p)
				p.Stop()
				p = np
			}
			continue
		}
		if i%50 == 49 || inp.class == "truncated-header" || (inp.binary && len(in) > 0 && len(in) < 24) {
			n := 1
			if i%50 != 49 {
				n = 4 // several at once: pooled per-processor state is what a short header may poison
			}
			res := make(chan string, n)
			for k := 0; k < n; k++ {
				go func() { res <- control() }()
			}
			for k := 0; k < n; k++ {
				if c := <-res; c != "" && sig == "" {
					sig = c
					run.Violation("server|"+c+"|after "+inp.class, w)
				}
			}
			run.Count("control_probes", int64(n))
		}
	}
	if c := control(); c != "" {
		run.Violation("server|"+c, map[string]interface{}{"stderr_tail": lastLines(p.Stderr(), 30)})
	}
	// containment: after all that malformed traffic other connections still see exactly their
	// own replies, also when several of them work at once (shared parser state such as pooled
	// headers must not have been poisoned)
	// right before: a burst of requests cut short inside the key of a quiet get (an error path of
	// the parser that handles pooled objects), on many connections
	for i := 0; i < 300; i++ {
		if cl, err := p.Dial(0, true); err == nil {
			full := append(wire.BinHeader([]byte{0x09, 0x41}[i%2], 10, 0, 10, uint32(i)), []byte("0123456789")...)
			cl.Send(full[:25+i%8])
			cl.Close()
		}
	}
	// several connections sending different unknown text commands at the same time: whatever the
	// error path remembers about rejected commands is shared by all connections and must be safe to
	// share (the race detector and the crash monitor below are the oracle)
	{
		var gw sync.WaitGroup
		sent := make([]int64, 8)
		for c := 0; c < 8; c++ {
			gw.Add(1)
			go func(c int) {
				defer gw.Done()
				var cl *wire.Client
				buf := make([]byte, 4096)
				for i := 0; i < 400; i++ {
					if cl == nil {
						var err error
						if cl, err = p.Dial(0, false); err != nil {
							return
						}
					}
					line := fmt.Sprintf("zz%dx%d unknown %d\r\n", c, i, i)
					if cl.Send([]byte(line)) != nil {
						cl.Close()
						cl = nil
						continue
					}
					sent[c]++
					cl.Conn.SetReadDeadline(time.Now().Add(2 * time.Second))
					if _, err := cl.Conn.Read(buf); err != nil {
						cl.Close()
						cl = nil
					}
				}
				if cl != nil {
					cl.Close()
				}
			}(c)
		}
		gw.Wait()
		var total int64
		for _, n := range sent {
			total += n
		}
		run.Count("concurrent_unknown_text_commands", total)
	}
	var ops int64
	var wg sync.WaitGroup
	fails := make(chan string, 16)
	for c := 0; c < 16; c++ {
		wg.Add(1)
		go func(c int) {
			defer wg.Done()
			if d, _ := c14Conn(p, true, 0, c, run.Pick(250, 800), run.Seed()*977+int64(c), &ops, 40); d != "" {
				fails <- d
			}
		}(c)
	}
	wg.Wait()
	close(fails)
	run.Count("concurrent_control_commands", ops)
	for d := range fails {
		if !p.Alive() {
			run.Violation("server|process exited while serving well-formed traffic after malformed input: "+crashKind(p.Stderr()), map[string]interface{}{"stderr_tail": lastLines(p.Stderr(), 40)})
		} else {
			run.Violation("server|after malformed input a well-behaved connection sees wrong replies: "+d, map[string]interface{}{"difference": d})
		}
		break
	}
	c11Races(run, p)
	run.Sample(map[string]interface{}{"class": "server", "inputs_sent": len(inputs)})
}

// c11Races reports race-detector findings of the memproxy that received the malformed input.
func c11Races(run *evid.Run, p *harness.Proxy) {
	for _, r := range parseRaces(p.RaceReports()) {
		if r.InRend {
			run.Violation("server|data race after malformed input: "+r.Pair, map[string]interface{}{"report": r.Text})
		}
	}
}

// c11Fuzz runs Go's native coverage-guided fuzzer over both parsers with the same monitors.
func c11Fuzz(run *evid.Run) {
	execs := run.Pick(6000, 600000)
	for _, target := range []string{"FuzzBinaryParser", "FuzzTextParser"} {
		dir := filepath.Join(harness.Scratch(), "fuzzcache-"+target)
		os.MkdirAll(dir, 0o755)
		work := filepath.Join(harness.Scratch(), "fuzzwork-"+target)
		os.MkdirAll(work, 0o755)
		// the test binary is built from /verif/parsemon against the current /repo tree
		bin := filepath.Join(harness.Scratch(), "parsemon.test")
		if _, err := os.Stat(bin); err != nil {
			cmd := exec.Command("go", "test", "-c", "-fuzz=Fuzz", "-o", bin, "./parsemon")
			cmd.Dir = evid.VerifDir
			if b, err := cmd.CombinedOutput(); err != nil {
				run.Inconclusive("cannot build fuzz target: " + string(b))
				return
			}
		}
		cmd := exec.Command(bin, "-test.run", "^$", "-test.fuzz", "^"+target+"$", "-test.fuzztime", fmt.Sprintf("%dx", execs),
			"-test.fuzzcachedir", dir, "-test.parallel", "8")
		cmd.Dir = work
		out, err := runWithTimeout(cmd, 20*time.Minute)
		s := string(out)
		run.Eval(1)
		run.Count("fuzz_executions_requested", int64(execs))
		run.Distinct("fuzz|" + target)
		if err != nil || strings.Contains(s, "FAIL") {
			crasher := ""
			files, _ := filepath.Glob(filepath.Join(work, "testdata", "fuzz", target, "*"))
			for _, f := range files {
				b, _ := os.ReadFile(f)
				crasher = string(b)
			}
			kind := "fuzz target failed"
			for _, l := range strings.Split(s, "\n") {
				if strings.Contains(l, "VIOLATION-KIND:") {
					kind = strings.TrimSpace(l[strings.Index(l, "VIOLATION-KIND:")+15:])
				} else if strings.HasPrefix(strings.TrimSpace(l), "panic:") || strings.HasPrefix(strings.TrimSpace(l), "fatal error:") {
					kind = canonAnomaly(strings.TrimSpace(l))
				}
			}
			if strings.Contains(s, "context deadline exceeded") && !strings.Contains(s, "VIOLATION-KIND:") && crasher == "" {
				run.Inconclusive("fuzz " + target + ": engine deadline: " + lastLines(s, 5))
				continue
			}
			run.Violation(fmt.Sprintf("parser|fuzz %s|%s", target, kind), map[string]interface{}{"crasher_file": crasher, "output_tail": lastLines(s, 40)})
		} else {
			for _, l := range strings.Split(s, "\n") {
				if strings.Contains(l, "new interesting:") {
					run.Extra("fuzz_last_line_"+target, strings.TrimSpace(l))
				}
			}
		}
	}
}

func runWithTimeout(cmd *exec.Cmd, d time.Duration) ([]byte, error) {
	type res struct {
		b   []byte
		err error
	}
	ch := make(chan res, 1)
	go func() {
		b, err := cmd.CombinedOutput()
		ch <- res{b, err}
	}()
	select {
	case r := <-ch:
		return r.b, r.err
	case <-time.After(d):
		if cmd.Process != nil {
			cmd.Process.Kill()
		}
		r := <-ch
		return r.b, fmt.Errorf("timeout")
	}
}

func isTimeout(err error) bool {
	var ne interface{ Timeout() bool }
	return errors.As(err, &ne) && ne.Timeout()
}

// parkedInBody reports whether a connection goroutine sits inside the binary parser behind the
// request header: waiting for key, extras, value or padding bytes.
func parkedInBody(dump string) bool {
	for _, b := range goroutineBlocks(dump) {
		if strings.Contains(b, "binprot.BinaryParser.Parse") && !strings.Contains(b, "binprot.readRequestHeader") &&
			(strings.Contains(b, "[IO wait") || strings.Contains(b, "[select") || strings.Contains(b, "[chan receive")) {
			return true
		}
	}
	return false
}

// bogusWait: the connection goroutine waits for a value whose length was computed from
// contradictory fields (set / append family), or - for the key-only inputs that supply
// everything their fixed format needs - waits anywhere behind the header.
func bogusWait(dump, class string) bool {
	if len(blocksWith(dump, "binprot.setRequest", "io.ReadAtLeast")) > 0 || len(blocksWith(dump, "binprot.appendPrependRequest", "io.ReadAtLeast")) > 0 {
		return true
	}
	return class == "inconsistent-keyonly" && parkedInBody(dump)
}
