package main

import (
	"fmt"
	"math/rand"
	"net"
	"os"
	"path/filepath"
	"runtime"
	"strings"
	"sync"
	"sync/atomic"
	"time"

	"github.com/netflix/rend/handlers"
	"github.com/netflix/rend/handlers/memcached/batched"
	"github.com/netflix/rend/handlers/memcached/std"

	"verif/evid"
	"verif/fakemc"
	"verif/harness"
	"verif/model"
	"verif/wire"
)

func init() {
	checks["C06"] = checkC06
	children["C06"] = childC06
}

func checkC06(tier, replay string) int {
	run := evid.NewRun("C06", tier, "exploration")
	run.Rule("batched.NewHandler against std.NewHandler on two identical fake backends: (a) the same sequential command sequence (every command kind, hit and miss variants, multi-key gets with duplicate keys and mixed quiet flags, gete) through both handlers - " +
		"outcome class, data, flags (and exptime for gete) must be equal and equal to the model; (b) 1..64 concurrent callers with private keys and unique values, each with an exact sequential model, multi-gets must deliver exactly one response per requested (key, opaque, quiet). " +
		"Options grid: batch size {1,2,10,64} x batch delay {50us,250us,5ms} x pool size {1,2,4,8} (pool grown through the verif hook), fresh pool per configuration; race detector on; " +
		"(c) concurrent callers exchanging 300 KB - 1 MB values (a batch whose reply and request both exceed the socket buffers); (d) cold start: 2-8 callers construct and use their handler for a socket without a pool at the same moment, backend listening already or 60 ms later. " +
		"distinct_nontrivial = distinct (options, callers, op-kind sequence) + observed burst sizes at the backend")
	res := spawnChild(run, "C06", 25*time.Minute, nil)
	if res.TimedOut {
		run.Inconclusive("C06 child did not finish; last case: " + res.LastCase + "\n" + lastLines(filterDump(res.Stderr), 60))
	} else if res.Crashed || res.ExitCode != 0 {
		run.Violation("batched|process crashed|"+crashKind(res.Stderr), map[string]interface{}{"last_case": res.LastCase, "stderr_tail": lastLines(res.Stderr, 60)})
	}
	races := parseRaces(res.Stderr)
	run.Count("race_reports_seen_(judged_by_C14)", int64(len(races)))
	for _, r := range races {
		run.SetAdd("race_pairs_seen", r.Pair)
	}
	run.Floor("sequential_commands", 300)
	run.Floor("concurrent_operations", 1000)
	return run.Finish()
}

type c06Cfg struct {
	BatchSize int
	DelayUS   int
	Pool      int
	Callers   int
	// Large: values of 300 KB - 1 MB, so that one batch carries a reply and a request that are
	// each larger than the socket buffers (writing a batch and reading its replies overlap)
	Large bool
}

func (c c06Cfg) String() string {
	l := ""
	if c.Large {
		l = " large-values"
	}
	return fmt.Sprintf("size=%d delay=%dus pool=%d callers=%d%s", c.BatchSize, c.DelayUS, c.Pool, c.Callers, l)
}

type c06Env struct {
	dir    string
	sock   string
	st     *fakemc.Store // behind the batched handler
	srv    *fakemc.Server
	stStd  *fakemc.Store // behind the direct handler
	opts   batched.Opts
	direct std.Handler
}

var c06Seq int
var concOps int64

func newC06Env(cfg c06Cfg) (*c06Env, error) {
	c06Seq++
	e := &c06Env{dir: filepath.Join(harness.Scratch(), fmt.Sprintf("c06-%d-%d", os.Getpid(), c06Seq))}
	os.MkdirAll(e.dir, 0o755)
	e.sock = filepath.Join(e.dir, "b.sock")
	e.st = fakemc.NewStore("pool")
	e.stStd = fakemc.NewStore("direct")
	t0 := uint32(time.Now().Unix())
	e.st.ResetAt(t0)
	e.stStd.ResetAt(t0)
	var err error
	if e.srv, err = fakemc.Listen(e.st, "unix", e.sock); err != nil {
		return nil, err
	}
	e.opts = batched.Opts{BatchSize: uint32(cfg.BatchSize), BatchDelayMicros: uint32(cfg.DelayUS), EvaluationIntervalSec: 3600}
	_ = batched.NewHandler(e.sock, e.opts) // creates the pool with one connection
	for batched.VerifPoolSize(e.sock) < cfg.Pool {
		if !batched.VerifAddConn(e.sock) {
			return nil, fmt.Errorf("pool for %s does not exist", e.sock)
		}
	}
	e.direct = std.NewHandler(e.stStd.Pipe())
	return e, nil
}

// close leaves the pool's backend listening: cutting it would only send the pool's goroutines
// (which cannot be stopped) into their reconnect loop for the rest of the process.
func (e *c06Env) close() {
	e.direct.Close()
}

var _ net.Conn

func c06Ops() []string {
	return []string{"set", "set", "add", "add", "replace", "replace", "append", "prepend", "delete", "delete", "touch", "touch", "get", "get", "mget", "mget", "gat", "gat", "setq", "setq", "setq"}
}

// mixQuiet turns a generated multi-get into one with duplicate keys and mixed quiet flags
// by splitting it: handlerExec derives quiet flags from NoopEnd, so mixed patterns are
// produced by alternating NoopEnd and by trailing non-quiet keys.
func childC06(args []string) int {
	run, finish := childRun("C06", "exploration")
	rng := rand.New(rand.NewSource(run.Seed()*61 + 6))
	var cfgs []c06Cfg
	if run.Thorough() {
		for _, bs := range []int{1, 2, 10, 64} {
			for _, d := range []int{50, 250, 5000} {
				for _, pool := range []int{1, 2, 4, 8} {
					cfgs = append(cfgs, c06Cfg{bs, d, pool, []int{1, 2, 8, 64}[rng.Intn(4)], false})
				}
			}
		}
	} else {
		cfgs = []c06Cfg{{1, 50, 1, 2, false}, {2, 250, 1, 8, false}, {10, 250, 2, 8, false}, {10, 50, 4, 64, false}, {64, 5000, 1, 64, false}, {64, 250, 8, 8, false}, {2, 5000, 2, 1, false}, {10, 250, 1, 64, false}}
	}
	cfgs = append(cfgs, c06Cfg{10, 5000, 1, 4, true})
	if run.Thorough() {
		cfgs = append(cfgs, c06Cfg{64, 5000, 2, 8, true}, c06Cfg{2, 250, 1, 3, true})
	}
	if os.Getenv("VERIF_C06_ONLY_LARGE") != "" {
		var l []c06Cfg
		for _, c := range cfgs {
			if c.Large {
				l = append(l, c)
			}
		}
		cfgs = l
	}
	for ci, cfg := range cfgs {
		env, err := newC06Env(cfg)
		if err != nil {
			run.Inconclusive("cannot set up pool: " + err.Error())
			continue
		}
		announceCase("sequential " + cfg.String())
		// (a) sequential differential
		nseq := run.Pick(6, 25)
		g := newGen(run.Seed()*67 + int64(ci))
		hb := batched.NewHandler(env.sock, env.opts)
		for si := 0; si < nseq; si++ {
			keys := []string{fmt.Sprintf("s%d.a", si), fmt.Sprintf("s%d.b", si), fmt.Sprintf("s%d.c", si)}
			o := genOpts{Binary: true, Keys: keys, MinLen: 10, MaxLen: 30, TTLs: []string{"0", "1000", "abs-future", "abs-past"}, T0: env.st.T0(),
				AllowGat: true, AllowMulti: true, AllowQuiet: true, ValueLens: []int{0, 1, 20, 1500, 70000}, Ops: c06Ops()}
			cmds := g.sequence(o)
			for j := range cmds {
				if cmds[j].Op == "get" && g.rng.Intn(4) == 0 {
					cmds[j].Op = "gete"
				}
			}
			m := model.New(env.st.Now)
			run.Eval(1)
			run.Count("sequential_commands", int64(len(cmds)))
			run.Distinct(fmt.Sprintf("seq|%s|%s", cfg, kindSeq(cmds)))
			if ci == 0 && si == 0 {
				run.Sample(map[string]interface{}{"kind": "sequential", "options": cfg.String(), "commands": shortCmds(cmds, 10)})
			}
			var trace []map[string]interface{}
			for _, c := range cmds {
				exp := expected(m, c, true)
				ob := handlerExec(hb, c, 0)
				od := handlerExec(env.direct, c, 0)
				rec := map[string]interface{}{"cmd": c.Short(), "model": brief(exp), "batched": brief(ob), "direct": brief(od)}
				trace = append(trace, rec)
				d := ""
				if x := diffResult(c, exp, od, true); x != "" {
					// the direct handler is the reference of the statement; if it disagrees with the
					// model the case cannot be judged here (C01 judges the direct handler)
					run.Count("direct_handler_disagrees_with_model", 1)
					break
				}
				if x := diffResult(c, od, ob, true); x != "" {
					d = x
				} else if c.Op == "gete" {
					for i := range od.Values {
						if od.Values[i].Exptime != ob.Values[i].Exptime {
							d = "gete exptime differs from the direct handler's"
						}
					}
				}
				if strings.HasPrefix(ob.Class, "panic:") {
					d = "handler panicked"
				}
				if d != "" {
					if len(trace) > 6 {
						trace = trace[len(trace)-6:]
					}
					run.Violation(fmt.Sprintf("batched|sequential|%s|%s", opKind(c), d), map[string]interface{}{"options": cfg.String(), "trace": trace})
					break
				}
			}
		}

		// (b) concurrent callers with private keys
		announceCase("concurrent " + cfg.String())
		nops := run.Pick(60, 200)
		if cfg.Large {
			nops = run.Pick(24, 60)
		}
		var wg sync.WaitGroup
		start := make(chan struct{})
		for caller := 0; caller < cfg.Callers; caller++ {
			wg.Add(1)
			go func(caller int) {
				defer wg.Done()
				h := batched.NewHandler(env.sock, env.opts)
				r := rand.New(rand.NewSource(run.Seed()*73 + int64(ci*1000+caller)))
				time.Sleep(time.Duration(r.Intn(300)) * time.Microsecond) // seeded start skew
				m := model.New(env.st.Now)
				ns := fmt.Sprintf("c%d.%d.", ci, caller)
				id := uint32(caller+1) << 16
				<-start
				for i := 0; i < nops; i++ {
					k := ns + fmt.Sprint(r.Intn(3))
					var c wire.Cmd
					sel := r.Intn(12)
					if cfg.Large {
						// big stores and reads of them only: half of the operations each
						sel = []int{0, 5}[r.Intn(2)]
					}
					switch sel {
					case 0, 1, 2:
						if cfg.Large {
							c = wire.Cmd{Op: "set", Key: k, Value: makeValue(id, []int{300000, 1 << 20}[r.Intn(2)]), Flags: r.Uint32()}
							id++
							break
						}
						c = wire.Cmd{Op: "set", Key: k, Value: makeValue(id, []int{0, 5, 100, 3000}[r.Intn(4)]), Flags: r.Uint32(), TTL: 0}
						id++
					case 3:
						c = wire.Cmd{Op: []string{"add", "replace", "append", "prepend"}[r.Intn(4)], Key: k, Value: makeValue(id, r.Intn(60)), Flags: r.Uint32()}
						id++
					case 4:
						c = wire.Cmd{Op: []string{"delete", "touch", "gat"}[r.Intn(3)], Key: k, TTL: 0, Opaque: r.Uint32()}
					case 5, 6:
						c = wire.Cmd{Op: "get", Keys: []string{k}, Opaque: r.Uint32() >> 1}
					default:
						n := 2 + r.Intn(6)
						c = wire.Cmd{Op: "get", Opaque: r.Uint32() >> 1, NoopEnd: r.Intn(2) == 0}
						for j := 0; j < n; j++ {
							c.Keys = append(c.Keys, ns+fmt.Sprint(r.Intn(4)))
						}
					}
					exp := expected(m, c, true)
					obs := handlerExec(h, c, 0)
					atomic.AddInt64(&concOps, 1)
					run.Count("concurrent_operations", 1)
					if d := diffResult(c, exp, obs, true); d != "" {
						run.Violation(fmt.Sprintf("batched|concurrent|%s|%s", opKind(c), d), map[string]interface{}{
							"options": cfg.String(), "caller": caller, "command": c.Short(), "expected": brief(exp), "observed": brief(obs)})
						return
					}
				}
			}(caller)
		}
		close(start)
		done := make(chan struct{})
		go func() { wg.Wait(); close(done) }()
		// watchdog on progress, not on total time: large values under the race detector on a
		// loaded machine are slow, but every single call is bounded (handlerExec reports a call
		// that is out for 20 s as a hang, which the callers turn into a violation)
		lastOps, lastChange := int64(-1), time.Now()
	waitCallers:
		for {
			select {
			case <-done:
				break waitCallers
			case <-time.After(5 * time.Second):
				if n := atomic.LoadInt64(&concOps); n != lastOps {
					lastOps, lastChange = n, time.Now()
				} else if time.Since(lastChange) > 120*time.Second {
					run.Inconclusive("concurrent callers made no progress for 120 s: " + cfg.String())
					panic("watchdog: concurrent callers stuck: " + cfg.String())
				}
			}
		}
		run.Eval(1)
		run.Distinct(fmt.Sprintf("conc|%s", cfg))
		// what the backend saw: burst sizes and pooled connections used
		conns := map[int]bool{}
		maxBurst := 0
		for _, rq := range env.st.Log() {
			conns[rq.Conn] = true
			if rq.Burst > maxBurst {
				maxBurst = rq.Burst
			}
			run.SetAdd("burst_positions_seen", fmt.Sprint(rq.Burst))
		}
		run.SetAdd("pool_connections_used", fmt.Sprintf("%d of %d", len(conns), cfg.Pool))
		if ci == 1 {
			run.Sample(map[string]interface{}{"kind": "concurrent", "options": cfg.String(), "operations_each": nops, "backend_connections_used": len(conns), "largest_burst_seen": maxBurst + 1})
		}
		_ = handlers.NilHandler
		env.close()
	}

	// (c) cold start: several callers construct their handler for a socket that has no pool yet
	// at the same moment and use it at once (with the backend already listening, or starting
	// to listen a little later)
	for cs := 0; cs < run.Pick(16, 120); cs++ {
		c06Seq++
		dir := filepath.Join(harness.Scratch(), fmt.Sprintf("c06-cold-%d-%d", os.Getpid(), c06Seq))
		os.MkdirAll(dir, 0o755)
		sock := filepath.Join(dir, "b.sock")
		st := fakemc.NewStore("cold")
		late := cs%2 == 1
		callers := []int{2, 4, 8}[cs%3]
		announceCase(fmt.Sprintf("cold start callers=%d late=%v", callers, late))
		listen := func() error {
			_, err := fakemc.Listen(st, "unix", sock)
			return err
		}
		if !late {
			if err := listen(); err != nil {
				run.Inconclusive("cold start: cannot listen: " + err.Error())
				continue
			}
		}
		opts := batched.Opts{BatchSize: uint32([]int{1, 10}[cs%2]), BatchDelayMicros: 250, EvaluationIntervalSec: 3600}
		var wg sync.WaitGroup
		var gate int32
		var badMu sync.Mutex
		bad := ""
		var witness map[string]interface{}
		for caller := 0; caller < callers; caller++ {
			wg.Add(1)
			go func(caller int) {
				defer wg.Done()
				atomic.AddInt32(&gate, 1)
				for spins := 0; atomic.LoadInt32(&gate) < int32(callers); spins++ {
					if spins > 20000 {
						runtime.Gosched() // more spinners than free processors
					}
				}
				h := batched.NewHandler(sock, opts)
				m := model.New(st.Now)
				k := fmt.Sprintf("cold%d.%d", cs, caller)
				for _, c := range []wire.Cmd{
					{Op: "set", Key: k, Value: makeValue(uint32(cs*100+caller+1), 40), Flags: uint32(caller + 7)},
					{Op: "get", Keys: []string{k}, Opaque: 0x31},
					{Op: "get", Keys: []string{k, k + "x", k}, Opaque: 0x40, NoopEnd: true},
					{Op: "append", Key: k, Value: []byte("+tail")},
					{Op: "gat", Key: k, Opaque: 0x51},
				} {
					exp := expected(m, c, true)
					obs := handlerExec(h, c, 0)
					run.Count("cold_start_operations", 1)
					if d := diffResult(c, exp, obs, true); d != "" {
						badMu.Lock()
						if bad == "" {
							bad = opKind(c) + "|" + d
							witness = map[string]interface{}{"callers": callers, "backend_listens_late": late, "caller": caller, "command": c.Short(), "expected": brief(exp), "observed": brief(obs),
								"backend_requests_seen": len(st.Log())}
						}
						badMu.Unlock()
						return
					}
				}
			}(caller)
		}
		if late {
			time.Sleep(60 * time.Millisecond)
			if err := listen(); err != nil {
				run.Inconclusive("cold start: cannot listen: " + err.Error())
			}
		}
		done := make(chan struct{})
		go func() { wg.Wait(); close(done) }()
		select {
		case <-done:
		case <-time.After(120 * time.Second):
			run.Inconclusive("cold-start callers did not finish within the watchdog")
			panic("watchdog: cold-start callers stuck")
		}
		run.Eval(1)
		run.Count("cold_start_cases", 1)
		run.Distinct(fmt.Sprintf("cold|%d|%v|%d", callers, late, opts.BatchSize))
		if bad != "" {
			run.Violation("batched|cold start|"+bad, witness)
		}
	}
	return finish()
}

func opKind(c wire.Cmd) string {
	if c.IsGet() && len(c.Keys) > 1 {
		return "multi-" + c.Op
	}
	return c.Op
}
