package main

import (
	"fmt"
	"sort"
	"time"

	"github.com/anishathalye/porcupine"
)

// linIn / linOut / linState are the operation inputs, outputs and per-key state of the
// single-map model used for linearizability checking (TTL is ignored).
type linIn struct {
	Op    string
	Key   string
	Val   string
	Flags uint32
}

type linOut struct {
	Class   string // ok | notfound | exists | notstored | unknown
	Hit     bool
	Val     string
	Flags   uint32
	Unknown bool // the operation's outcome is unknown (it may or may not have taken effect)
}

type linState struct {
	Present bool
	Val     string
	Flags   uint32
}

func failClass(c string) bool { return c == "notfound" || c == "exists" || c == "notstored" }

var linModel = porcupine.Model{
	Partition: func(history []porcupine.Operation) [][]porcupine.Operation {
		by := map[string][]porcupine.Operation{}
		var keys []string
		for _, op := range history {
			k := op.Input.(linIn).Key
			if _, ok := by[k]; !ok {
				keys = append(keys, k)
			}
			by[k] = append(by[k], op)
		}
		sort.Strings(keys)
		var out [][]porcupine.Operation
		for _, k := range keys {
			out = append(out, by[k])
		}
		return out
	},
	Init: func() interface{} { return linState{} },
	Step: func(state, input, output interface{}) (bool, interface{}) {
		st := state.(linState)
		in := input.(linIn)
		out := output.(linOut)
		switch in.Op {
		case "set":
			return out.Class == "ok", linState{true, in.Val, in.Flags}
		case "add":
			if st.Present {
				return failClass(out.Class), st
			}
			return out.Class == "ok", linState{true, in.Val, in.Flags}
		case "replace":
			if !st.Present {
				return failClass(out.Class), st
			}
			return out.Class == "ok", linState{true, in.Val, in.Flags}
		case "append":
			if !st.Present {
				return failClass(out.Class), st
			}
			return out.Class == "ok", linState{true, st.Val + in.Val, st.Flags}
		case "prepend":
			if !st.Present {
				return failClass(out.Class), st
			}
			return out.Class == "ok", linState{true, in.Val + st.Val, st.Flags}
		case "delete":
			if !st.Present {
				return failClass(out.Class), st
			}
			return out.Class == "ok", linState{}
		case "touch":
			if !st.Present {
				return failClass(out.Class), st
			}
			return out.Class == "ok", st
		case "get", "gat":
			if !st.Present {
				return !out.Hit, st
			}
			return out.Hit && out.Val == st.Val && out.Flags == st.Flags, st
		}
		return false, st
	},
	DescribeOperation: func(input, output interface{}) string {
		in := input.(linIn)
		out := output.(linOut)
		v := in.Val
		if len(v) > 12 {
			v = v[:12] + "..."
		}
		if in.Op == "get" || in.Op == "gat" {
			ov := out.Val
			if len(ov) > 12 {
				ov = ov[:12] + "..."
			}
			return fmt.Sprintf("%s(%s) -> hit=%v %q", in.Op, in.Key, out.Hit, ov)
		}
		return fmt.Sprintf("%s(%s,%q) -> %s", in.Op, in.Key, v, out.Class)
	},
}

// linInit builds a model whose keys start in given states (porcupine's Init is per partition
// and stateless, so initial contents are expressed as a first "set" operation at time 0).
func initOps(init map[string]linState) []porcupine.Operation {
	var ops []porcupine.Operation
	keys := make([]string, 0, len(init))
	for k := range init {
		keys = append(keys, k)
	}
	sort.Strings(keys)
	for _, k := range keys {
		st := init[k]
		if st.Present {
			ops = append(ops, porcupine.Operation{ClientId: 99, Input: linIn{"set", k, st.Val, st.Flags}, Call: -2, Output: linOut{Class: "ok"}, Return: -1})
		}
	}
	return ops
}

// checkLinearizable returns (ok, inconclusive, description of the offending key history).
func checkLinearizable(ops []porcupine.Operation, timeout time.Duration) (bool, bool, []string) {
	res, info := porcupine.CheckOperationsVerbose(linModel, ops, timeout)
	switch res {
	case porcupine.Ok:
		return true, false, nil
	case porcupine.Unknown:
		return false, true, nil
	}
	_ = info
	var desc []string
	sorted := append([]porcupine.Operation(nil), ops...)
	sort.Slice(sorted, func(i, j int) bool { return sorted[i].Call < sorted[j].Call })
	for _, op := range sorted {
		desc = append(desc, fmt.Sprintf("client %d [%d,%d] %s", op.ClientId, op.Call, op.Return, linModel.DescribeOperation(op.Input, op.Output)))
		if len(desc) >= 40 {
			desc = append(desc, "...")
			break
		}
	}
	return false, false, desc
}
