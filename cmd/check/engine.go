package main

import (
	"errors"
	"fmt"
	"sync"

	"verif/evid"
	"verif/harness"
	"verif/wire"
)

// seqHooks customise a closed-loop sequence execution.
type seqHooks struct {
	// before is called before command i is sent (evictions, clock moves).
	before func(s *session, i int, c wire.Cmd)
	// after is called after command i was answered and may return an additional diff.
	after func(s *session, i int, c wire.Cmd, obs wire.Result) string
}

type seqOutcome struct {
	FailIdx int
	Diff    string
	Trace   []traceEntry
	Err     error
}

// runSeq executes cmds on fresh stores. It stops at the first difference.
func runSeq(p *harness.Proxy, binary bool, cmds []wire.Cmd, h seqHooks) seqOutcome {
	p.ResetStores()
	s := newSession(p, binary)
	defer s.close()
	for i, c := range cmds {
		if h.before != nil {
			h.before(s, i, c)
		}
		diff, obs, err := s.exec(c)
		if err != nil {
			return seqOutcome{FailIdx: i, Trace: s.trace, Err: err}
		}
		if diff == "" && h.after != nil {
			diff = h.after(s, i, c, obs)
			if diff != "" && len(s.trace) > 0 {
				s.trace[len(s.trace)-1].Diff = diff
			}
		}
		if diff != "" {
			return seqOutcome{FailIdx: i, Diff: diff, Trace: s.trace}
		}
	}
	return seqOutcome{FailIdx: -1, Trace: s.trace}
}

// proxyPool runs fn once per configuration, each on its own memproxy child, in parallel.
func proxyPool(run *evid.Run, cfgs []harness.ProxyCfg, parallel int, fn func(p *harness.Proxy, restart func() *harness.Proxy)) {
	sem := make(chan struct{}, parallel)
	var wg sync.WaitGroup
	for _, cfg := range cfgs {
		cfg := cfg
		wg.Add(1)
		sem <- struct{}{}
		go func() {
			defer wg.Done()
			defer func() { <-sem }()
			p, err := harness.StartProxy(cfg)
			if err != nil {
				startFailure(run, cfg.Name(), err)
				return
			}
			cur := p
			restart := func() *harness.Proxy {
				cur.Stop()
				np, err := harness.StartProxy(cfg)
				if err != nil {
					run.Inconclusive(fmt.Sprintf("cannot restart memproxy %s: %v", cfg.Name(), err))
					return nil
				}
				cur = np
				return np
			}
			fn(p, restart)
			cur.Stop()
		}()
	}
	wg.Wait()
}

// handleExecError classifies an execution error: a watchdog expiry is inconclusive unless the
// server process died (which every property forbids), a malformed reply is a violation.
func handleExecError(run *evid.Run, p *harness.Proxy, what string, out seqOutcome, witness map[string]interface{}) {
	witness["trace"] = tail(out.Trace, 12)
	witness["error"] = out.Err.Error()
	if !p.Alive() {
		witness["stderr_tail"] = lastLines(p.Stderr(), 40)
		run.Violation(what+"|server process exited", witness)
		return
	}
	if errors.Is(out.Err, wire.ErrMalformed) {
		run.Violation(what+"|malformed reply: "+canonAnomaly(out.Err.Error()), witness)
		return
	}
	if errors.Is(out.Err, wire.ErrWatchdog) {
		dump := p.GoroutineDumpKill()
		witness["goroutines"] = lastLines(filterDump(dump), 80)
		run.Inconclusive(what + ": no reply within the watchdog; goroutine dump kept in witness")
		return
	}
	run.Inconclusive(what + ": " + out.Err.Error())
}

func tail(t []traceEntry, n int) []traceEntry {
	if len(t) > n {
		return t[len(t)-n:]
	}
	return t
}

func lastLines(s string, n int) string {
	cnt := 0
	for i := len(s) - 1; i >= 0; i-- {
		if s[i] == '\n' {
			cnt++
			if cnt > n {
				return s[i+1:]
			}
		}
	}
	return s
}

// startFailure reports why a memproxy could not be used: a server that runs, accepts a
// connection and then does not answer a plain set is a violation of the property at hand (every
// property here presupposes that commands are answered); anything else is an environment
// problem and inconclusive.
func startFailure(run *evid.Run, what string, err error) {
	var ns *harness.NotServingError
	if errors.As(err, &ns) {
		run.Violation(fmt.Sprintf("%s|start-up|a set on a fresh connection to the %s port of the freshly started server is not answered", what, []string{"main", "batch"}[ns.Port]),
			map[string]interface{}{"config": what, "detail": ns.Detail})
		return
	}
	run.Inconclusive(fmt.Sprintf("cannot start memproxy %s: %v", what, err))
}
