package main

import (
	"bytes"
	"encoding/binary"
	"fmt"
	"github.com/netflix/rend/handlers/memcached"
	"math/rand"
	"os"
	"path/filepath"
	"strings"
	"time"
	"verif/harness"

	"github.com/netflix/rend/handlers/memcached/chunked"

	"verif/evid"
	"verif/fakemc"
	"verif/wire"
)

func init() {
	checks["C16"] = checkC16
	children["C16"] = childC16
}

func checkC16(tier, replay string) int {
	run := evid.NewRun("C16", tier, "exploration")
	run.Rule("pure observation of the fake backend's request log while chunked.Handler executes set/add/replace/append/prepend/touch: " +
		"for every key length 1..250 the chunk value length is learned from the first chunk write and must stay constant, " +
		"key+value+67 <= 1184 for every chunk index up to 998, #chunks = ceil(len/(chunk value length - 16)), metadata value length 40, " +
		"all chunks of one write start with the same 16-byte token which equals the metadata's token field. " +
		"distinct_nontrivial = distinct (key length, value length, command) writes")
	run.Assume("the 67-byte item overhead and the 1184-byte slab are the statement's constants")
	res := spawnChild(run, "C16", 25*time.Minute, nil)
	if res.Crashed || res.TimedOut {
		if res.TimedOut {
			run.Inconclusive("C16 child did not finish; last case: " + res.LastCase)
		} else {
			run.Violation("chunked handler|process crashed|"+crashKind(res.Stderr), map[string]interface{}{"last_case": res.LastCase, "stderr_tail": lastLines(res.Stderr, 60)})
		}
	}
	run.Floor("chunk_writes_observed", 2000)
	run.Floor("key_lengths_observed", 100)
	return run.Finish()
}

// chunkDiscipline inspects the log of one write command for key k with a value of vl bytes.
type chunkDiscipline struct {
	chunkValLen map[int]int // key length -> learned chunk value length
	writes      int64
}

func (cd *chunkDiscipline) check(k string, vl int, log []fakemc.Req) string {
	var meta *fakemc.Req
	var chunks []fakemc.Req
	for i := range log {
		rq := log[i]
		if rq.Op != fakemc.OpSet && rq.Op != fakemc.OpAdd && rq.Op != fakemc.OpReplace {
			continue
		}
		if rq.Status != 0 {
			continue
		}
		idx := derivedIndex(k, rq.Key)
		switch {
		case idx == -1:
			m := rq
			meta = &m
			chunks = nil // a later metadata write starts a new version (append = read + set)
		case idx >= 0:
			chunks = append(chunks, rq)
		default:
			return "storage request for a key not derived from the client key"
		}
	}
	if meta == nil {
		return "no metadata write observed"
	}
	if meta.ValLen != 40 {
		return "metadata value length is not 40"
	}
	kl := len(k)
	for i, c := range chunks {
		cd.writes++
		if derivedIndex(k, c.Key) != i {
			return "chunk writes not numbered 0..n-1 in order"
		}
		learned, ok := cd.chunkValLen[kl]
		if !ok {
			cd.chunkValLen[kl] = c.ValLen
			learned = c.ValLen
		}
		if c.ValLen != learned {
			return "two chunk writes for the same key length have different value lengths"
		}
		if len(c.Key)+c.ValLen+67 > 1184 {
			return "backend key + chunk value + 67 exceeds the 1184-byte slab"
		}
		// the largest suffix the statement allows (index 998) must fit too
		if kl+4+c.ValLen+67 > 1184 {
			return "chunk value too long for a 3-digit chunk index"
		}
		if c.ValLen < 17 {
			return "chunk value shorter than token + 1"
		}
		if len(c.ValHead) < 16 || len(meta.ValHead) < 40 || !bytes.Equal(c.ValHead[:16], meta.ValHead[24:40]) {
			return "chunk token differs from the metadata token"
		}
	}
	if len(meta.ValHead) >= 12 {
		if n := int(binary.BigEndian.Uint32(meta.ValHead[8:12])); n != len(chunks) {
			return "chunk count recorded in the metadata differs from the chunks written"
		}
		if l := int(binary.BigEndian.Uint32(meta.ValHead[0:4])); l != vl {
			return "value length recorded in the metadata differs from the value written"
		}
	}
	if len(chunks) == 0 {
		if vl != 0 {
			return "no chunk written for a non-empty value"
		}
		return ""
	}
	payload := chunks[0].ValLen - 16
	want := (vl + payload - 1) / payload
	if len(chunks) != want {
		return "number of chunks is not ceil(length / payload)"
	}
	return ""
}

func childC16(args []string) int {
	run, finish := childRun("C16", "exploration")
	rng := rand.New(rand.NewSource(run.Seed()*17 + 16))
	st := fakemc.NewStore("L1")
	h := chunked.NewHandler(st.Pipe())
	defer h.Close()
	cd := &chunkDiscipline{chunkValLen: map[int]int{}}
	id := uint32(1)
	fail := func(kl, vl int, op, d string, log []fakemc.Req) {
		var lg []string
		for i, rq := range log {
			if i > 8 {
				lg = append(lg, "...")
				break
			}
			lg = append(lg, fmt.Sprintf("op=0x%02x key=%q vallen=%d status=%d", rq.Op, rq.Key, rq.ValLen, rq.Status))
		}
		run.Violation(fmt.Sprintf("chunked|%s|%s|%s", op, lenClassExact(kl, vl), d),
			map[string]interface{}{"key_len": kl, "value_len": vl, "command": op, "backend_requests": lg})
	}
	doWrite := func(kl, vl int, op string) {
		key := strings.Repeat("x", kl)
		announceCase(fmt.Sprintf("%s keylen=%d vallen=%d", op, kl, vl))
		val := makeValue(id, vl)
		id++
		st.ResetLog()
		total := vl
		var res wire.Result
		switch op {
		case "set", "add", "replace":
			if op == "add" {
				handlerExec(h, wire.Cmd{Op: "delete", Key: key}, 0)
				st.ResetLog()
			}
			if op == "replace" {
				handlerExec(h, wire.Cmd{Op: "set", Key: key, Value: makeValue(id, rng.Intn(3000))}, 0)
				id++
				st.ResetLog()
			}
			res = handlerExec(h, wire.Cmd{Op: op, Key: key, Value: val, Flags: rng.Uint32(), TTL: []uint32{0, 1000, 2592000}[rng.Intn(3)]}, rng.Intn(2)*6)
		case "append", "prepend":
			base := rng.Intn(chunkPayload(kl) + 2)
			handlerExec(h, wire.Cmd{Op: "set", Key: key, Value: makeValue(id, base)}, 0)
			id++
			st.ResetLog()
			res = handlerExec(h, wire.Cmd{Op: op, Key: key, Value: val}, 0)
			total = base + vl
		case "append-foreign", "prepend-foreign":
			// the backend already holds the key in a layout another writer produced (the read
			// path honours the chunk size recorded in the metadata): what THIS handler writes
			// for the key must still follow its own discipline
			p := chunkPayload(kl)
			fp := p + []int{4, -240, 296, -1}[rng.Intn(4)]
			if fp < 8 {
				fp = p + 4
			}
			base := 1 + rng.Intn(3*fp)
			bv := makeValue(id, base)
			id++
			var tok [16]byte
			for i := range tok {
				tok[i] = byte(0xA0 + i)
			}
			nch := (base + fp - 1) / fp
			for i := 0; i < nch; i++ {
				chunk := make([]byte, 16+fp)
				copy(chunk, tok[:])
				copy(chunk[16:], bv[i*fp:minInt(len(bv), (i+1)*fp)])
				st.Put(fmt.Sprintf("%s-%d", key, i), chunk, 0, 0)
			}
			md := make([]byte, 40)
			binary.BigEndian.PutUint32(md[0:4], uint32(base))
			binary.BigEndian.PutUint32(md[4:8], 0x1234)
			binary.BigEndian.PutUint32(md[8:12], uint32(nch))
			binary.BigEndian.PutUint32(md[12:16], uint32(fp))
			binary.BigEndian.PutUint32(md[16:20], st.Now())
			copy(md[24:], tok[:])
			st.Put(key+"-meta", md, 0, 0)
			g := handlerExec(h, wire.Cmd{Op: "get", Keys: []string{key}, Opaque: 1}, 0)
			if len(g.Values) != 1 || !bytes.Equal(g.Values[0].Data, bv) {
				run.Count("foreign_layouts_not_readable", 1) // nothing to extend then
				return
			}
			run.Count("foreign_layouts_extended", 1)
			st.ResetLog()
			res = handlerExec(h, wire.Cmd{Op: strings.TrimSuffix(op, "-foreign"), Key: key, Value: val}, 0)
			total = base + vl
		case "touch", "gat":
			handlerExec(h, wire.Cmd{Op: "set", Key: key, Value: val}, 0)
			st.ResetLog()
			res = handlerExec(h, wire.Cmd{Op: op, Key: key, TTL: 5000}, rng.Intn(2)*6)
		case "set-past", "replace-past", "add-past":
			// an expiration time that is already in the past, over an existing (or, for add, a
			// missing) key: whatever the handler writes must still obey the entry discipline
			if op != "add-past" {
				handlerExec(h, wire.Cmd{Op: "set", Key: key, Value: makeValue(id, 1+rng.Intn(2500))}, 0)
				id++
			} else {
				handlerExec(h, wire.Cmd{Op: "delete", Key: key}, 0)
			}
			st.ResetLog()
			res = handlerExec(h, wire.Cmd{Op: strings.TrimSuffix(op, "-past"), Key: key, Value: val, TTL: st.Now() - 100000}, 0)
		}
		log := st.Log()
		run.Eval(1)
		run.Distinct(fmt.Sprintf("%s|%d|%d", op, kl, total))
		run.SetAdd("key_lengths", fmt.Sprint(kl))
		if res.Class != "ok" {
			fail(kl, total, op, "write command failed: "+classKind(res.Class), log)
			return
		}
		if op == "touch" || op == "gat" || strings.HasSuffix(op, "-past") {
			// these paths rewrite at most the metadata
			for _, rq := range log {
				if (rq.Op == fakemc.OpSet || rq.Op == fakemc.OpAdd || rq.Op == fakemc.OpReplace) && rq.Status == 0 {
					if derivedIndex(key, rq.Key) != -1 {
						fail(kl, total, op, op+" wrote a backend entry other than the metadata", log)
					} else if rq.ValLen != 40 {
						fail(kl, total, op, "metadata value length is not 40", log)
					}
				}
			}
			return
		}
		if d := cd.check(key, total, log); d != "" {
			fail(kl, total, op, d, log)
		}
	}
	for kl := 1; kl <= 250; kl++ {
		p := chunkPayload(kl)
		for _, vl := range []int{0, 1, p - 1, p, p + 1, 2 * p, 3*p + 1} {
			op := []string{"set", "add", "replace"}[(kl+vl)%3]
			doWrite(kl, vl, op)
		}
		if kl%5 == 0 || run.Thorough() {
			doWrite(kl, 1+rng.Intn(2*p), "append")
			doWrite(kl, 1+rng.Intn(2*p), "prepend")
			doWrite(kl, 1+rng.Intn(2*p), "touch")
			doWrite(kl, 1+rng.Intn(2*p), "gat")
			doWrite(kl, 1+rng.Intn(2*p), []string{"set-past", "replace-past", "add-past"}[kl%3])
			doWrite(kl, 1+rng.Intn(2*p), []string{"append-foreign", "prepend-foreign"}[(kl/5)%2])
		}
		st.EvictAll()
	}
	bigKL := []int{1, 250}
	ks := []int{10, 100, 998, 999}
	if run.Thorough() {
		bigKL = []int{1, 8, 100, 250}
		ks = []int{10, 100, 500, 998, 999}
	}
	for _, kl := range bigKL {
		p := chunkPayload(kl)
		for _, k := range ks {
			for d := -1; d <= 1; d++ {
				doWrite(kl, k*p+d, "set")
			}
			st.EvictAll()
		}
	}
	if run.Thorough() {
		for i := 0; i < 3000; i++ {
			kl := 1 + rng.Intn(250)
			doWrite(kl, rng.Intn(40*chunkPayload(kl)), []string{"set", "add", "replace", "append", "prepend"}[rng.Intn(5)])
			if i%50 == 0 {
				st.EvictAll()
			}
		}
	}
	c16Deployment(run)
	run.Count("chunk_writes_observed", cd.writes)
	run.Count("key_lengths_observed", int64(len(cd.chunkValLen)))
	lens := map[string]int{}
	for _, kl := range []int{1, 8, 100, 250} {
		lens[fmt.Sprint(kl)] = cd.chunkValLen[kl]
	}
	run.Sample(map[string]interface{}{"learned_chunk_value_length_by_key_length": lens})
	return finish()
}

// c16Deployment: the discipline at the level the handler is deployed at. (1) the constructor
// memproxy uses (memcached.Chunked) called while the backend starts listening a moment later:
// either it fails or what it hands out chunks; (2) memproxy started with --chunked, alone and
// combined with the other L1 options: every entry that reaches the L1 backend is a metadata
// entry of 40 bytes or a chunk of the one length its key length allows.
func c16Deployment(run *evid.Run) {
	entryProblem := func(st *fakemc.Store, keys []string) string {
		for bk, e := range st.SnapshotAll() {
			owner := ""
			idx := -2
			for _, k := range keys {
				if i := derivedIndex(k, bk); i != -2 {
					owner, idx = k, i
				}
			}
			switch {
			case owner == "":
				return fmt.Sprintf("backend entry %q is not a metadata or chunk entry of any key written", bk)
			case idx == -1 && len(e.Value) != 40:
				return "metadata value length is not 40"
			case idx >= 0 && len(e.Value) != chunkPayload(len(owner))+16:
				return "chunk value length differs from 1184 - 71 - key length"
			case len(bk)+len(e.Value)+67 > 1184:
				return "key + value + 67 exceeds the slab budget"
			}
		}
		return ""
	}
	// (1) constructor with a backend that comes up late
	for i := 0; i < run.Pick(6, 40); i++ {
		announceCase("constructor with a late backend")
		dir := filepath.Join(harness.Scratch(), fmt.Sprintf("c16-late-%d-%d", os.Getpid(), i))
		os.MkdirAll(dir, 0o755)
		sock := filepath.Join(dir, "l1.sock")
		st := fakemc.NewStore("L1")
		lateBy := time.Duration(20+i%5*30) * time.Millisecond
		var srv *fakemc.Server
		done := make(chan struct{})
		go func() {
			time.Sleep(lateBy)
			srv, _ = fakemc.Listen(st, "unix", sock)
			close(done)
		}()
		h, err := memcached.Chunked(sock)()
		<-done
		run.Eval(1)
		run.Count("constructor_calls_with_late_backend", 1)
		run.Distinct(fmt.Sprintf("deploy|constructor|%v", lateBy))
		if err != nil || h == nil {
			run.Count("constructor_calls_refused", 1)
		} else {
			keys := []string{"late-a", "late-bb"}
			for j, k := range keys {
				handlerExec(h, wire.Cmd{Op: "set", Key: k, Value: makeValue(uint32(7000+i*2+j), []int{30, 2500}[j]), Flags: 5}, 0)
			}
			if d := entryProblem(st, keys); d != "" {
				run.Violation("chunked|deployment|handler constructed while the backend was still coming up|"+d, map[string]interface{}{"backend_listens_after_ms": lateBy.Milliseconds(), "backend_keys": sortedStoreKeys(st)})
			}
			h.Close()
		}
		if srv != nil {
			srv.Close()
		}
	}
	// (2) memproxy option combinations
	for _, extra := range [][]string{nil, {"--l1-batched"}, {"--batch-size", "4"}} {
		for _, l2 := range []bool{false, true} {
			cfg := harness.ProxyCfg{L2: l2, L1Kind: "chunked", ExtraArgs: extra}
			announceCase("memproxy " + cfg.Name() + " " + strings.Join(extra, " "))
			p, err := harness.StartProxy(cfg)
			if err != nil {
				run.Inconclusive("cannot start memproxy " + strings.Join(extra, " ") + ": " + err.Error())
				continue
			}
			cl, err := p.Dial(0, true)
			if err != nil {
				run.Inconclusive("dial: " + err.Error())
				p.Stop()
				continue
			}
			keys := []string{"d", "dep-key-2", strings.Repeat("k", 100)}
			bad := ""
			for j, k := range keys {
				r, err := cl.Do(wire.Cmd{Op: "set", Key: k, Value: makeValue(uint32(7100+j), []int{0, 700, 4000}[j]), Flags: 9, Opaque: uint32(j + 1)})
				if err != nil || r.Class != "ok" {
					bad = "set through memproxy failed: " + r.Class
				}
				cl.Do(wire.Cmd{Op: "append", Key: k, Value: []byte("tail"), Opaque: uint32(j + 11)})
			}
			cl.Close()
			if bad == "" {
				bad = entryProblem(p.L1, keys)
			}
			run.Eval(1)
			run.Count("memproxy_deployments", 1)
			run.Distinct("deploy|memproxy|" + cfg.Name() + "|" + strings.Join(extra, " "))
			if bad != "" {
				run.Violation("chunked|deployment|memproxy --chunked "+strings.Join(extra, " ")+"|"+bad, map[string]interface{}{"config": cfg, "l1_keys": sortedStoreKeys(p.L1)})
			}
			p.Stop()
		}
	}
}
