package main

import (
	"bytes"
	"fmt"
	"sort"

	"verif/harness"
	"verif/model"
	"verif/wire"
)

// expected computes what a single memcached-style map answers to c (and applies c to it).
func expected(m *model.Map, c wire.Cmd, binary bool) wire.Result {
	res := wire.Result{}
	switch c.Op {
	case "set":
		res.Class = m.Set(c.Key, c.Value, c.Flags, c.TTL)
	case "add":
		res.Class = m.Add(c.Key, c.Value, c.Flags, c.TTL)
	case "replace":
		res.Class = m.Replace(c.Key, c.Value, c.Flags, c.TTL)
	case "append":
		res.Class = m.Append(c.Key, c.Value)
	case "prepend":
		res.Class = m.Prepend(c.Key, c.Value)
	case "delete":
		res.Class = m.Delete(c.Key)
	case "touch":
		res.Class = m.Touch(c.Key, c.TTL)
	case "gat":
		it := m.Gat(c.Key, c.TTL)
		if it == nil {
			res.Class = model.NotFound
		} else {
			res.Class = model.OK
			res.Values = []wire.Val{{Key: c.Key, Flags: it.Flags, Data: append([]byte(nil), it.Value...)}}
		}
	case "get", "gete":
		res.Class = model.OK
		res.Terminators = 1
		for i, k := range c.Keys {
			it := m.Get(k)
			if it == nil {
				quiet := (c.NoopEnd || i != len(c.Keys)-1) && !c.NonQuiet
				if binary && !quiet {
					res.Misses++
				}
				continue
			}
			res.Values = append(res.Values, wire.Val{Key: k, Flags: it.Flags, Data: append([]byte(nil), it.Value...)})
		}
	case "noop", "version", "stats", "quit":
		res.Class = model.OK
	default:
		res.Class = "raw"
	}
	res.SortValues()
	return res
}

// classEquivalent applies the aliases that the statement permits: only the failure *class*
// of append/prepend on a missing key is unspecified between not-stored and not-found, and the
// text protocol prints NOT_STORED for both "exists" and "not stored".
func classEquivalent(c wire.Cmd, exp, obs string, binary bool) bool {
	if exp == obs {
		return true
	}
	if (c.Op == "append" || c.Op == "prepend") && exp == model.NotStored && obs == model.NotFound {
		return true
	}
	if !binary && exp == model.Exists && obs == model.NotStored {
		return true
	}
	return false
}

// diffResult returns "" when obs matches exp, else a short description of what differed.
func diffResult(c wire.Cmd, exp, obs wire.Result, binary bool) string {
	if len(obs.Anomalies) > 0 {
		return "anomaly: " + canonAnomaly(obs.Anomalies[0])
	}
	if !classEquivalent(c, exp.Class, obs.Class, binary) {
		return fmt.Sprintf("class expected=%s observed=%s", exp.Class, classKind(obs.Class))
	}
	if c.IsGet() || c.Op == "gat" {
		if len(exp.Values) != len(obs.Values) {
			if len(obs.Values) > len(exp.Values) {
				return "more values than the model"
			}
			return "fewer values than the model"
		}
		for i := range exp.Values {
			e, o := exp.Values[i], obs.Values[i]
			if e.Key != o.Key {
				return "value key differs"
			}
			if e.Flags != o.Flags {
				return "flags differ"
			}
			if !bytes.Equal(e.Data, o.Data) {
				if len(e.Data) != len(o.Data) {
					return "value length differs"
				}
				return "value bytes differ"
			}
		}
		if c.IsGet() && binary && exp.Misses != obs.Misses {
			if obs.Misses > exp.Misses {
				return "more explicit not-found replies than the model"
			}
			return "fewer explicit not-found replies than the model"
		}
	}
	return ""
}

func classKind(c string) string {
	if len(c) > 4 && c[:4] == "err:" {
		return "err"
	}
	return c
}

// canonAnomaly strips variable parts (numbers in hex, keys) from an anomaly message.
func canonAnomaly(a string) string {
	out := make([]byte, 0, len(a))
	inq := false
	for i := 0; i < len(a); i++ {
		ch := a[i]
		if ch == '"' {
			inq = !inq
			if !inq {
				out = append(out, 'K')
			}
			continue
		}
		if inq {
			continue
		}
		if ch >= '0' && ch <= '9' {
			if len(out) > 0 && out[len(out)-1] == 'N' {
				continue
			}
			if i+1 < len(a) && ch == '0' && a[i+1] == 'x' {
				j := i + 2
				for j < len(a) && ((a[j] >= '0' && a[j] <= '9') || (a[j] >= 'a' && a[j] <= 'f')) {
					j++
				}
				i = j - 1
			}
			out = append(out, 'N')
			continue
		}
		out = append(out, ch)
	}
	return string(out)
}

// session runs commands closed-loop against a proxy and the reference model in lock step.
type session struct {
	p       *harness.Proxy
	binary  bool
	clients [2]*wire.Client
	m       *model.Map
	trace   []traceEntry
}

type traceEntry struct {
	Cmd      string      `json:"cmd"`
	Port     int         `json:"port,omitempty"`
	Expected wire.Result `json:"expected"`
	Observed wire.Result `json:"observed"`
	Diff     string      `json:"diff,omitempty"`
}

func newSession(p *harness.Proxy, binary bool) *session {
	return &session{p: p, binary: binary, m: model.New(p.L1.Now)}
}

func (s *session) client(port int) (*wire.Client, error) {
	if s.clients[port] == nil {
		c, err := s.p.Dial(port, s.binary)
		if err != nil {
			return nil, err
		}
		s.clients[port] = c
	}
	return s.clients[port], nil
}

func (s *session) close() {
	for i, c := range s.clients {
		if c != nil {
			c.Close()
			s.clients[i] = nil
		}
	}
}

// exec runs one command; diff is "" when the reply matched the model.
func (s *session) exec(c wire.Cmd) (diff string, obs wire.Result, err error) {
	cl, err := s.client(c.Port)
	if err != nil {
		return "", wire.Result{}, err
	}
	exp := expected(s.m, c, s.binary)
	obs, err = cl.Do(c)
	if err != nil {
		s.trace = append(s.trace, traceEntry{Cmd: c.Short(), Port: c.Port, Expected: brief(exp), Observed: brief(obs), Diff: "error: " + err.Error()})
		return "", obs, err
	}
	diff = diffResult(c, exp, obs, s.binary)
	s.trace = append(s.trace, traceEntry{Cmd: c.Short(), Port: c.Port, Expected: brief(exp), Observed: brief(obs), Diff: diff})
	return diff, obs, nil
}

// brief shortens values for witnesses.
func brief(r wire.Result) wire.Result {
	out := r
	out.Values = nil
	for _, v := range r.Values {
		d := v.Data
		if len(d) > 24 {
			d = append(append([]byte(nil), d[:24]...), []byte(fmt.Sprintf("...(%d bytes)", len(v.Data)))...)
		}
		out.Values = append(out.Values, wire.Val{Key: v.Key, Flags: v.Flags, Data: d, Exptime: v.Exptime})
	}
	return out
}

// shrink greedily removes commands while the sequence still fails with the same kind of diff.
// run executes a candidate on fresh state and returns the diff kind ("" = passes).
func shrink(cmds []wire.Cmd, want string, run func([]wire.Cmd) string, budget int) []wire.Cmd {
	cur := cmds
	changed := true
	for changed && budget > 0 {
		changed = false
		for i := len(cur) - 1; i >= 0 && budget > 0; i-- {
			cand := append(append([]wire.Cmd(nil), cur[:i]...), cur[i+1:]...)
			if len(cand) == 0 {
				continue
			}
			budget--
			if run(cand) == want {
				cur = cand
				changed = true
			}
		}
		// drop single keys from multi-key gets
		for i := len(cur) - 1; i >= 0 && budget > 0; i-- {
			for j := len(cur[i].Keys) - 1; j >= 0 && len(cur[i].Keys) > 1 && budget > 0; j-- {
				cand := append([]wire.Cmd(nil), cur...)
				c := cand[i]
				c.Keys = append(append([]string(nil), c.Keys[:j]...), c.Keys[j+1:]...)
				cand[i] = c
				budget--
				if run(cand) == want {
					cur = cand
					changed = true
				}
			}
		}
	}
	return cur
}

// sortedKeys returns the sorted keys of a string-keyed map.
func sortedKeys[V any](m map[string]V) []string {
	ks := make([]string, 0, len(m))
	for k := range m {
		ks = append(ks, k)
	}
	sort.Strings(ks)
	return ks
}
