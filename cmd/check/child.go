package main

import (
	"fmt"
	"os"
	"os/exec"
	"path/filepath"
	"strings"
	"sync"
	"sync/atomic"
	"syscall"
	"time"

	"verif/evid"
	"verif/harness"
)

var childSeq int32

// spawnChild runs `check --child name args...` in its own process and merges what it observed.
// A crash of the child is returned with its stderr tail and the last case it announced.
type childResult struct {
	Crashed  bool
	TimedOut bool
	Stderr   string
	LastCase string
	ExitCode int
}

func spawnChild(run *evid.Run, name string, timeout time.Duration, env []string, args ...string) childResult {
	n := atomic.AddInt32(&childSeq, 1)
	dir := filepath.Join(harness.Scratch(), fmt.Sprintf("child-%s-%d", name, n))
	os.MkdirAll(dir, 0o755)
	defer os.RemoveAll(dir)
	outFile := filepath.Join(dir, "export.json")
	caseFile := filepath.Join(dir, "lastcase")
	errFile := filepath.Join(dir, "stderr")
	ef, _ := os.Create(errFile)
	cmd := exec.Command(os.Args[0], append([]string{"--child", name}, args...)...)
	cmd.Stdout = os.Stdout
	cmd.Stderr = ef
	cmd.Env = append(os.Environ(), "VERIF_CHILD_EXPORT="+outFile, "VERIF_CHILD_CASE="+caseFile,
		fmt.Sprintf("VERIF_CHILD_N=%d", n), "VERIF_TIER="+run.Tier, "GOTRACEBACK=all",
		"GORACE=halt_on_error=0 exitcode=0 log_path="+filepath.Join(dir, "race"))
	cmd.Env = append(cmd.Env, env...)
	cmd.SysProcAttr = &syscall.SysProcAttr{Pdeathsig: syscall.SIGKILL}
	res := childResult{}
	if err := cmd.Start(); err != nil {
		ef.Close()
		res.Crashed = true
		res.Stderr = err.Error()
		return res
	}
	done := make(chan error, 1)
	go func() { done <- cmd.Wait() }()
	var werr error
	select {
	case werr = <-done:
	case <-time.After(timeout):
		cmd.Process.Signal(syscall.SIGQUIT)
		select {
		case werr = <-done:
		case <-time.After(10 * time.Second):
			cmd.Process.Kill()
			werr = <-done
		}
		res.TimedOut = true
	}
	ef.Close()
	if b, err := os.ReadFile(errFile); err == nil {
		s := string(b)
		if len(s) > 200000 {
			s = s[:100000] + "\n...\n" + s[len(s)-100000:]
		}
		res.Stderr = s
	}
	if b, err := os.ReadFile(caseFile); err == nil {
		res.LastCase = string(b)
	}
	// race logs of the child
	if files, _ := filepath.Glob(filepath.Join(dir, "race.*")); len(files) > 0 {
		var sb strings.Builder
		for _, f := range files {
			b, _ := os.ReadFile(f)
			sb.Write(b)
		}
		res.Stderr += "\n" + sb.String()
	}
	if err := run.Import(outFile); err != nil {
		if !res.TimedOut {
			res.Crashed = true
		}
	}
	if werr != nil {
		if ee, ok := werr.(*exec.ExitError); ok {
			res.ExitCode = ee.ExitCode()
		}
	}
	return res
}

// childRun returns the Run a child process accumulates into, and a finish function.
func childRun(id, level string) (*evid.Run, func() int) {
	run := evid.NewRun(id, os.Getenv("VERIF_TIER"), level)
	var n int
	fmt.Sscanf(os.Getenv("VERIF_CHILD_N"), "%d", &n)
	run.ReplayBase(n * 1000)
	return run, func() int {
		if p := os.Getenv("VERIF_CHILD_EXPORT"); p != "" {
			if err := run.Export(p); err != nil {
				fmt.Fprintln(os.Stderr, "export:", err)
				return 3
			}
		}
		return 0
	}
}

var caseMu sync.Mutex

// announceCase records the case about to be executed so that a crash can be attributed.
func announceCase(desc string) {
	if tf := os.Getenv("VERIF_CASE_TRACE"); tf != "" {
		if f, err := os.OpenFile(tf, os.O_APPEND|os.O_CREATE|os.O_WRONLY, 0o644); err == nil {
			fmt.Fprintf(f, "CASE %s %s\n", time.Now().Format("15:04:05.000"), desc)
			f.Close()
		}
	}
	p := os.Getenv("VERIF_CHILD_CASE")
	if p == "" {
		return
	}
	caseMu.Lock()
	os.WriteFile(p, []byte(desc), 0o644)
	caseMu.Unlock()
}
