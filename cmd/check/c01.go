package main

import (
	"fmt"
	"strings"
	"sync/atomic"
	"time"

	"verif/evid"
	"verif/harness"
	"verif/wire"
)

func init() { checks["C01"] = checkC01 }

type portMode struct {
	Name  string
	Ports []int
}

func portModes(l2 bool) []portMode {
	if !l2 {
		return []portMode{{"main", []int{0}}}
	}
	return []portMode{{"main", []int{0}}, {"batch", []int{1}}, {"alternating", []int{0, 1}}}
}

func protoName(binary bool) string {
	if binary {
		return "binary"
	}
	return "text"
}

// c01Configs returns the base (std) and extended (chunked / batched L1) shapes.
func c01Configs(extended bool) []harness.ProxyCfg {
	var cfgs []harness.ProxyCfg
	for _, l2 := range []bool{false, true} {
		for _, lock := range []string{"none", "mr", "sr"} {
			cfgs = append(cfgs, harness.ProxyCfg{L2: l2, L1Kind: "std", Locked: lock != "none", MultiReader: lock == "mr"})
		}
	}
	if extended {
		for _, kind := range []string{"chunked", "batched"} {
			for _, l2 := range []bool{false, true} {
				for _, lock := range []bool{false, true} {
					cfgs = append(cfgs, harness.ProxyCfg{L2: l2, L1Kind: kind, Locked: lock, MultiReader: false})
				}
			}
		}
	}
	return cfgs
}

func keyAlphabet(kind string) []string {
	if kind == "chunked" {
		// derivation-hostile keys for the chunked backend
		return []string{"a", "a-0", "a-meta", "b"}
	}
	return []string{"ka", "kb", "kc", "kd"}
}

func valueLens(keyLen int) []int {
	p := chunkPayload(keyLen)
	return []int{0, 1, 100, p - 1, p, p + 1, 3*p + 7}
}

var inmemSeq int64

func checkC01(tier, replay string) int {
	run := evid.NewRun("C01", tier, "exploration")
	run.Rule("closed-loop command sequences (8-40 commands over 4 colliding keys, all nine data commands, multi/quiet gets, quiet sets) " +
		"on the real memproxy binary in front of fake memcached backends; every reply is compared with a reference single map. " +
		"distinct_nontrivial = distinct (configuration, protocol, port mode, op-kind sequence with canonical key names) with at least one key touched twice")
	run.Assume("fakemc implements memcached semantics (self-tested against the model)")
	run.Assume("append/prepend on a missing key may answer not-found or not-stored; the text protocol prints NOT_STORED for 'exists'")
	nseq := run.Pick(24, 160)
	cfgs := c01Configs(true)
	if !run.Thorough() {
		// quick: all base shapes, plus the two extended L1/L2 unlocked shapes
		cfgs = c01Configs(false)
		cfgs = append(cfgs, harness.ProxyCfg{L2: true, L1Kind: "chunked"}, harness.ProxyCfg{L2: false, L1Kind: "batched"})
	}
	// the in-process L1 in front of an L2 (its contents cannot be reset from outside: every
	// sequence gets keys of its own; relative TTLs only, as the handler documents)
	cfgs = append(cfgs, harness.ProxyCfg{L2: true, L1Kind: "inmem"})
	proxyPool(run, cfgs, 12, func(p *harness.Proxy, restart func() *harness.Proxy) {
		cfg := p.Cfg
		for _, binary := range []bool{false, true} {
			for _, pm := range portModes(cfg.L2) {
				g := newGen(run.Seed()*1000003 + int64(hashStr(cfg.Name()+protoName(binary)+pm.Name)))
				n := nseq
				if cfg.L1Kind != "std" && !run.Thorough() {
					n = nseq / 2
				}
				for i := 0; i < n; i++ {
					keys := keyAlphabet(cfg.L1Kind)
					o := genOpts{Binary: binary, Keys: keys, MinLen: 8, MaxLen: 40, TTLs: ttlClasses, T0: p.L1.T0(),
						AllowGat: true, AllowQuiet: true, AllowMulti: true, Ports: pm.Ports, ValueLens: valueLens(2)}
					if cfg.L1Kind == "inmem" {
						o.Keys = nil
						for _, k := range keys {
							o.Keys = append(o.Keys, fmt.Sprintf("i%d.%s", atomic.AddInt64(&inmemSeq, 1), k))
						}
						o.TTLs = []string{"0", "1000", "100000"}
					}
					cmds := g.sequence(o)
					what := fmt.Sprintf("%s|%s|%s", cfg.Name(), protoName(binary), pm.Name)
					run.Eval(1)
					run.Count("commands", int64(len(cmds)))
					out := runSeq(p, binary, cmds, seqHooks{})
					if hasCollision(cmds) {
						run.Distinct(what + "|" + kindSeq(cmds))
					}
					if i == 0 && binary && pm.Name != "batch" {
						run.Sample(map[string]interface{}{"config": what, "commands": shortCmds(cmds, 12), "first_replies": tail(out.Trace, 3)})
					}
					if out.Err != nil {
						handleExecError(run, p, what, out, map[string]interface{}{"config": cfg, "commands": cmds})
						if p = restart(); p == nil {
							return
						}
						continue
					}
					if out.FailIdx >= 0 {
						reportSeqViolation(run, p, what, binary, cmds, out, seqHooks{})
						if !p.Alive() {
							if p = restart(); p == nil {
								return
							}
						}
					}
				}
			}
		}
	})
	run.Floor("commands", 500)
	return run.Finish()
}

func shortCmds(cmds []wire.Cmd, n int) []string {
	var out []string
	for i, c := range cmds {
		if i >= n {
			out = append(out, fmt.Sprintf("... (%d more)", len(cmds)-n))
			break
		}
		out = append(out, c.Short())
	}
	return out
}

func hashStr(s string) uint32 {
	h := uint32(2166136261)
	for i := 0; i < len(s); i++ {
		h ^= uint32(s[i])
		h *= 16777619
	}
	return h
}

// reportSeqViolation shrinks a failing sequence and reports it with a canonical signature.
func reportSeqViolation(run *evid.Run, p *harness.Proxy, what string, binary bool, cmds []wire.Cmd, out seqOutcome, h seqHooks) {
	want := out.Diff
	prefix := cmds[:out.FailIdx+1]
	small := shrink(prefix, want, func(c []wire.Cmd) string {
		if !p.Alive() {
			return ""
		}
		o := runSeq(p, binary, c, h)
		if o.Err != nil {
			return ""
		}
		return o.Diff
	}, 120)
	final := runSeq(p, binary, small, h)
	tr := final.Trace
	if final.Diff != want {
		small = prefix
		tr = out.Trace
	}
	sig := fmt.Sprintf("%s|%s|%s", what, kindSeqLens(small), want)
	run.Violation(sig, map[string]interface{}{
		"config": p.Cfg, "protocol": protoName(binary), "commands": small, "trace": tail(tr, 12),
		"original_length": len(cmds), "l1": storeBrief(p, 1), "l2": storeBrief(p, 2),
	})
}

// kindSeqLens is kindSeq plus a value-length class per data command (sizes matter for chunking).
func kindSeqLens(cmds []wire.Cmd) string {
	ks := strings.Split(kindSeq(cmds), "; ")
	for i, c := range cmds {
		if c.Value != nil || c.Op == "set" || c.Op == "add" || c.Op == "replace" {
			ks[i] += " " + lenClass(len(c.Value))
		}
		if c.Op == "set" || c.Op == "add" || c.Op == "replace" || c.Op == "touch" || c.Op == "gat" {
			ks[i] += " " + ttlClassOf(c.TTL)
		}
	}
	return strings.Join(ks, "; ")
}

func lenClass(n int) string {
	switch {
	case n == 0:
		return "len0"
	case n <= 1000:
		return "small"
	case n <= 1100:
		return "~1chunk"
	}
	return "multi"
}

func ttlClassOf(t uint32) string {
	switch {
	case t == 0:
		return "ttl0"
	case t <= 2592000:
		return "rel"
	case t < uint32(time.Now().Unix()):
		return "abs-past"
	}
	return "abs"
}

func storeBrief(p *harness.Proxy, tier int) map[string]string {
	st := p.L1
	if tier == 2 {
		st = p.L2
	}
	out := map[string]string{}
	for k, e := range st.Snapshot() {
		v := e.Value
		if len(v) > 16 {
			v = v[:16]
		}
		out[k] = fmt.Sprintf("len=%d flags=%d deadline=%d head=%q", len(e.Value), e.Flags, e.Deadline, v)
	}
	return out
}
