package main

import (
	"bufio"
	"errors"
	"fmt"
	"io"
	"net"
	"runtime"
	"strings"
	"sync"
	"time"

	"github.com/netflix/rend/common"
	"github.com/netflix/rend/handlers"
	"github.com/netflix/rend/handlers/memcached/std"
	"github.com/netflix/rend/orcas"
	"github.com/netflix/rend/protocol"
	"github.com/netflix/rend/protocol/binprot"
	"github.com/netflix/rend/protocol/textprot"
	"github.com/netflix/rend/server"

	"verif/evid"
	"verif/fakemc"
	"verif/wire"
)

func init() {
	checks["C12"] = checkC12
	children["C12"] = childC12
}

func checkC12(tier, replay string) int {
	run := evid.NewRun("C12", tier, "fault_enumeration")
	run.Rule("the real server.Loop runs over orcas.Locked(L1Only | L1L2 | L1L2Batch) whose lock set is wrapped (verif hook) by recording lockers that keep a holder table {lock index -> goroutines, mode}; " +
		"handlers and responder are fault wrappers around the real ones that panic / return a non-application error / return an application error at the n-th call. A fault-free dry run counts the calls a command makes on L1, L2 and the responder; " +
		"then EVERY (component, call index, fault kind) is injected for every command kind (multi-key gets: fault at first / middle / last key, also gets naming one key twice so that consecutive keys share a lock stripe), single- and multi-reader, text and binary; " +
		"the panic and I/O-error faults are repeated with backend handles whose Close() reports an error afterwards (a socket that is already broken). " +
		"Monitors: holder table empty after the command, no goroutine holds two key locks, a probe command on the same key from a fresh connection completes, " +
		"and after a panic the client connection is closed (the sentinel's reply arriving without the command's own reply means the panic was swallowed). Plus opposite-order multi-key gets with writers (no deadlock) and clients vanishing mid-command. " +
		"distinct_nontrivial = distinct (orchestrator, reader mode, protocol, command, component, call index, fault kind)")
	run.Assume("a connection is identified with its loop goroutine (the orchestrator is called synchronously from Loop); panics are injected on that goroutine")
	res := spawnChild(run, "C12", 30*time.Minute, nil)
	if res.TimedOut {
		run.Inconclusive("C12 child did not finish; last case: " + res.LastCase)
	} else if res.Crashed || res.ExitCode != 0 {
		run.Violation("locked|process crashed|"+crashKind(res.Stderr), map[string]interface{}{"last_case": res.LastCase, "stderr_tail": lastLines(res.Stderr, 60)})
	}
	run.Floor("fault_cases", 300)
	run.Floor("lock_acquisitions_observed", 1000)
	return run.Finish()
}

// ---------------------------------------------------------------- recording lockers

type holderTable struct {
	mu       sync.Mutex
	holders  map[int]map[int64]string // lock index -> goroutine id -> mode
	perG     map[int64]int
	acquires int64
	problems []string
}

func newHolderTable() *holderTable {
	return &holderTable{holders: map[int]map[int64]string{}, perG: map[int64]int{}}
}

func (h *holderTable) problem(s string) {
	if len(h.problems) < 8 {
		h.problems = append(h.problems, s)
	}
}

func (h *holderTable) acquired(idx int, mode string) {
	g := goid()
	h.mu.Lock()
	defer h.mu.Unlock()
	h.acquires++
	m := h.holders[idx]
	if m == nil {
		m = map[int64]string{}
		h.holders[idx] = m
	}
	for og, om := range m {
		if mode == "w" || om == "w" {
			h.problem(fmt.Sprintf("lock %d granted in mode %s to goroutine %d while goroutine %d holds it in mode %s", idx, mode, g, og, om))
		}
	}
	m[g] = mode
	h.perG[g]++
	if h.perG[g] > 1 {
		h.problem("a connection holds two key locks at once")
	}
}

func (h *holderTable) released(idx int) {
	g := goid()
	h.mu.Lock()
	defer h.mu.Unlock()
	if m := h.holders[idx]; m != nil {
		if _, ok := m[g]; !ok {
			h.problem(fmt.Sprintf("lock %d released by goroutine %d which does not hold it", idx, g))
		}
		delete(m, g)
		if len(m) == 0 {
			delete(h.holders, idx)
		}
	}
	h.perG[g]--
	if h.perG[g] <= 0 {
		delete(h.perG, g)
	}
}

func (h *holderTable) snapshot() (held int, problems []string) {
	h.mu.Lock()
	defer h.mu.Unlock()
	for _, m := range h.holders {
		held += len(m)
	}
	problems = append(problems, h.problems...)
	h.problems = nil
	return
}

type recLocker struct {
	inner sync.Locker
	tab   *holderTable
	idx   int
	mode  string
}

func (l *recLocker) Lock()   { l.inner.Lock(); l.tab.acquired(l.idx, l.mode) }
func (l *recLocker) Unlock() { l.tab.released(l.idx); l.inner.Unlock() }

// freshLockers installs brand-new real mutexes, wrapped, into a lock-set slot.
func freshLockers(slot uint32, multiReader bool, tab *holderTable) {
	w, _ := orcas.VerifLockers(slot)
	n := len(w)
	nw := make([]sync.Locker, n)
	nr := make([]sync.Locker, n)
	for i := 0; i < n; i++ {
		if multiReader {
			m := &sync.RWMutex{}
			nw[i] = &recLocker{inner: m, tab: tab, idx: i, mode: "w"}
			nr[i] = &recLocker{inner: m.RLocker(), tab: tab, idx: i, mode: "r"}
		} else {
			m := &sync.Mutex{}
			l := &recLocker{inner: m, tab: tab, idx: i, mode: "w"}
			nw[i], nr[i] = l, l
		}
	}
	orcas.VerifSetLockers(slot, nw, nr)
}

// ---------------------------------------------------------------- fault wrappers

var errInjectedIO = errors.New("injected I/O error")

type faultPlan struct {
	mu     sync.Mutex
	counts map[string]int // component -> calls so far
	comp   string
	at     int
	kind   string // panic | ioerr | apperr
	fired  bool
}

func (p *faultPlan) hit(comp string) error {
	p.mu.Lock()
	p.counts[comp]++
	n := p.counts[comp]
	fire := p.comp == comp && p.at == n && !p.fired
	if fire {
		p.fired = true
	}
	kind := strings.TrimSuffix(p.kind, "+closeerr")
	p.mu.Unlock()
	if !fire {
		return nil
	}
	switch kind {
	case "panic":
		panic("injected panic in " + comp)
	case "panic-error":
		panic(fmt.Errorf("injected error-valued panic in %s", comp))
	case "panic-eof":
		panic(io.EOF) // the value a broken backend connection is reported with further down
	case "panic-runtime":
		var a []int
		_ = a[len(comp)] // a real runtime.Error (index out of range)
	case "ioerr":
		return errInjectedIO
	}
	return common.ErrInternal
}

type faultHandler struct {
	inner handlers.Handler
	plan  *faultPlan
	name  string
}

func (f *faultHandler) Set(c common.SetRequest) error {
	if err := f.plan.hit(f.name); err != nil {
		return err
	}
	return f.inner.Set(c)
}
func (f *faultHandler) Add(c common.SetRequest) error {
	if err := f.plan.hit(f.name); err != nil {
		return err
	}
	return f.inner.Add(c)
}
func (f *faultHandler) Replace(c common.SetRequest) error {
	if err := f.plan.hit(f.name); err != nil {
		return err
	}
	return f.inner.Replace(c)
}
func (f *faultHandler) Append(c common.SetRequest) error {
	if err := f.plan.hit(f.name); err != nil {
		return err
	}
	return f.inner.Append(c)
}
func (f *faultHandler) Prepend(c common.SetRequest) error {
	if err := f.plan.hit(f.name); err != nil {
		return err
	}
	return f.inner.Prepend(c)
}
func (f *faultHandler) Delete(c common.DeleteRequest) error {
	if err := f.plan.hit(f.name); err != nil {
		return err
	}
	return f.inner.Delete(c)
}
func (f *faultHandler) Touch(c common.TouchRequest) error {
	if err := f.plan.hit(f.name); err != nil {
		return err
	}
	return f.inner.Touch(c)
}
func (f *faultHandler) GAT(c common.GATRequest) (common.GetResponse, error) {
	if err := f.plan.hit(f.name); err != nil {
		return common.GetResponse{}, err
	}
	return f.inner.GAT(c)
}
func (f *faultHandler) Get(c common.GetRequest) (<-chan common.GetResponse, <-chan error) {
	if err := f.plan.hit(f.name); err != nil {
		// the channel discipline of the real handlers: both unbuffered, the error is handed over
		// first, then the response channel and the error channel are closed
		rc := make(chan common.GetResponse)
		ec := make(chan error)
		go func() {
			ec <- err
			close(rc)
			close(ec)
		}()
		return rc, ec
	}
	return f.inner.Get(c)
}
func (f *faultHandler) GetE(c common.GetRequest) (<-chan common.GetEResponse, <-chan error) {
	if err := f.plan.hit(f.name); err != nil {
		rc := make(chan common.GetEResponse)
		ec := make(chan error)
		go func() {
			ec <- err
			close(rc)
			close(ec)
		}()
		return rc, ec
	}
	return f.inner.GetE(c)
}

// Close closes the backend connection; with a "+closeerr" plan it reports an error once the
// fault has fired, the way closing an already broken socket does.
func (f *faultHandler) Close() error {
	err := f.inner.Close()
	f.plan.mu.Lock()
	defer f.plan.mu.Unlock()
	if f.plan.fired && strings.HasSuffix(f.plan.kind, "+closeerr") {
		return errors.New("close: connection already closed")
	}
	return err
}

type faultResponder struct {
	protocol.Responder
	plan *faultPlan
}

func (f *faultResponder) Set(o uint32, q bool) error {
	if err := f.plan.hit("res"); err != nil {
		return err
	}
	return f.Responder.Set(o, q)
}
func (f *faultResponder) Add(o uint32, q bool) error {
	if err := f.plan.hit("res"); err != nil {
		return err
	}
	return f.Responder.Add(o, q)
}
func (f *faultResponder) Replace(o uint32, q bool) error {
	if err := f.plan.hit("res"); err != nil {
		return err
	}
	return f.Responder.Replace(o, q)
}
func (f *faultResponder) Append(o uint32, q bool) error {
	if err := f.plan.hit("res"); err != nil {
		return err
	}
	return f.Responder.Append(o, q)
}
func (f *faultResponder) Prepend(o uint32, q bool) error {
	if err := f.plan.hit("res"); err != nil {
		return err
	}
	return f.Responder.Prepend(o, q)
}
func (f *faultResponder) Get(r common.GetResponse) error {
	if err := f.plan.hit("res"); err != nil {
		return err
	}
	return f.Responder.Get(r)
}
func (f *faultResponder) GetEnd(o uint32, n bool) error {
	if err := f.plan.hit("res"); err != nil {
		return err
	}
	return f.Responder.GetEnd(o, n)
}
func (f *faultResponder) GetE(r common.GetEResponse) error {
	if err := f.plan.hit("res"); err != nil {
		return err
	}
	return f.Responder.GetE(r)
}
func (f *faultResponder) GAT(r common.GetResponse) error {
	if err := f.plan.hit("res"); err != nil {
		return err
	}
	return f.Responder.GAT(r)
}
func (f *faultResponder) Delete(o uint32) error {
	if err := f.plan.hit("res"); err != nil {
		return err
	}
	return f.Responder.Delete(o)
}
func (f *faultResponder) Touch(o uint32) error {
	if err := f.plan.hit("res"); err != nil {
		return err
	}
	return f.Responder.Touch(o)
}

// ---------------------------------------------------------------- in-process connections

type c12Shape struct {
	Orca        string // l1only | l1l2 | l1l2batch
	MultiReader bool
}

func (s c12Shape) String() string {
	m := "sr"
	if s.MultiReader {
		m = "mr"
	}
	return s.Orca + "/" + m
}

type c12Server struct {
	shape  c12Shape
	constr orcas.OrcaConst
	slot   uint32
	tab    *holderTable
	l1, l2 *fakemc.Store
}

func newC12Server(shape c12Shape) *c12Server {
	s := &c12Server{shape: shape, tab: newHolderTable(), l1: fakemc.NewStore("L1"), l2: fakemc.NewStore("L2")}
	var oc orcas.OrcaConst
	switch shape.Orca {
	case "l1only":
		oc = orcas.L1Only
	case "l1l2":
		oc = orcas.L1L2
	default:
		oc = orcas.L1L2Batch
	}
	s.constr, s.slot = orcas.Locked(oc, shape.MultiReader, 2)
	freshLockers(s.slot, shape.MultiReader, s.tab)
	return s
}

// relock replaces the lock set after a case left a lock behind (the constructor reads the
// slot at construction time, so connections opened afterwards use the new lockers).
var c12Acquires int64
var c12Stuck int

func (s *c12Server) relock() {
	c12Acquires += s.tab.acquires
	s.tab = newHolderTable()
	freshLockers(s.slot, s.shape.MultiReader, s.tab)
}

type c12Conn struct {
	cl   *wire.Client
	done chan struct{}
	plan *faultPlan
}

// pipeConn adapts a buffered pipe end to net.Conn for wire.Client (deadlines via a timer).
type pipeConn struct {
	*fakemc.PipeEnd
	mu sync.Mutex
	tm *time.Timer
}

func (p *pipeConn) LocalAddr() net.Addr                { return pipeAddr{} }
func (p *pipeConn) RemoteAddr() net.Addr               { return pipeAddr{} }
func (p *pipeConn) SetDeadline(t time.Time) error      { return p.SetReadDeadline(t) }
func (p *pipeConn) SetWriteDeadline(t time.Time) error { return nil }
func (p *pipeConn) SetReadDeadline(t time.Time) error {
	p.mu.Lock()
	defer p.mu.Unlock()
	if p.tm != nil {
		p.tm.Stop()
	}
	if !t.IsZero() {
		// a deadline that fires closes the pipe: the reader sees EOF; callers treat a
		// watchdog expiry separately by checking wall time
		d := time.Until(t)
		p.tm = time.AfterFunc(d, func() { p.PipeEnd.Close() })
	}
	return nil
}

type pipeAddr struct{}

func (pipeAddr) Network() string { return "pipe" }
func (pipeAddr) String() string  { return "pipe" }

// connect starts a real server.Loop over an in-memory client connection.
func (s *c12Server) connect(binary bool, plan *faultPlan) *c12Conn {
	if plan == nil {
		plan = &faultPlan{counts: map[string]int{}}
	}
	a, b := fakemc.BufferedPipe()
	h1 := &faultHandler{inner: std.NewHandler(s.l1.Pipe()), plan: plan, name: "l1"}
	var h2 handlers.Handler
	if s.shape.Orca != "l1only" {
		h2 = &faultHandler{inner: std.NewHandler(s.l2.Pipe()), plan: plan, name: "l2"}
	}
	r := bufio.NewReader(b)
	w := bufio.NewWriter(b)
	var parser protocol.RequestParser
	var resp protocol.Responder
	if binary {
		parser, resp = binprot.NewBinaryParser(r), binprot.NewBinaryResponder(w)
	} else {
		parser, resp = textprot.NewTextParser(r), textprot.NewTextResponder(w)
	}
	fr := &faultResponder{Responder: resp, plan: plan}
	closers := []io.Closer{b, h1}
	if h2 != nil {
		closers = append(closers, h2)
	}
	orca := s.constr(h1, h2, fr)
	srv := server.Default(closers, parser, orca)
	c := &c12Conn{done: make(chan struct{}), plan: plan}
	go func() {
		defer close(c.done)
		srv.Loop()
	}()
	pc := &pipeConn{PipeEnd: a}
	c.cl = &wire.Client{Conn: pc, R: bufio.NewReaderSize(pc, 1<<16), Binary: binary, Watchdog: 0}
	return c
}

func allStacks() string {
	buf := make([]byte, 1<<20)
	n := runtime.Stack(buf, true)
	return string(buf[:n])
}

// doWithWatchdog runs cl.Do with a wall-clock watchdog (the in-memory pipe has no deadlines).
func doWithWatchdog(c *c12Conn, cmd wire.Cmd, d time.Duration) (wire.Result, error, bool) {
	type rr struct {
		r   wire.Result
		err error
	}
	ch := make(chan rr, 1)
	go func() {
		r, err := c.cl.Do(cmd)
		ch <- rr{r, err}
	}()
	select {
	case x := <-ch:
		return x.r, x.err, false
	case <-time.After(d):
		return wire.Result{}, nil, true
	}
}

func c12Commands(binary bool) []wire.Cmd {
	v := []byte("new-value")
	cmds := []wire.Cmd{
		{Op: "set", Key: "ka", Value: v, Flags: 3, Opaque: 0x10},
		{Op: "add", Key: "kz", Value: v, Flags: 3, Opaque: 0x11},
		{Op: "replace", Key: "ka", Value: v, Opaque: 0x12},
		{Op: "append", Key: "ka", Value: v, Opaque: 0x13},
		{Op: "prepend", Key: "ka", Value: v, Opaque: 0x14},
		{Op: "delete", Key: "ka", Opaque: 0x15},
		{Op: "touch", Key: "ka", TTL: 100, Opaque: 0x16},
		{Op: "get", Keys: []string{"ka"}, Opaque: 0x20},
		{Op: "get", Keys: []string{"kmiss"}, Opaque: 0x24},
		{Op: "get", Keys: []string{"ka", "kb", "kc"}, Opaque: 0x30, NoopEnd: binary},
		{Op: "get", Keys: []string{"ka", "kmiss", "kl2"}, Opaque: 0x38},
		// consecutive keys of one lock stripe (the same key twice): the lock released for the
		// previous key and the one just taken are the same locker
		{Op: "get", Keys: []string{"ka", "ka", "kb"}, Opaque: 0x60, NoopEnd: binary},
		{Op: "get", Keys: []string{"kb", "kc", "kc"}, Opaque: 0x68},
	}
	if binary {
		cmds = append(cmds, wire.Cmd{Op: "gat", Key: "ka", TTL: 100, Opaque: 0x40}, wire.Cmd{Op: "gat", Key: "kl2", TTL: 100, Opaque: 0x41},
			wire.Cmd{Op: "set", Key: "ka", Value: v, QuietSet: true, Opaque: 0x42},
			wire.Cmd{Op: "gete", Keys: []string{"ka"}, Opaque: 0x50},
			wire.Cmd{Op: "gete", Keys: []string{"kb", "kmiss", "ka"}, Opaque: 0x58, NoopEnd: true},
			wire.Cmd{Op: "gete", Keys: []string{"ka", "ka", "ka"}, Opaque: 0x70, NoopEnd: true})
	}
	return cmds
}

func (s *c12Server) seed() {
	s.l1.Reset()
	s.l2.Reset()
	for _, k := range []string{"ka", "kb", "kc"} {
		s.l1.Put(k, []byte("old-"+k), 9, 0)
		s.l2.Put(k, []byte("old-"+k), 9, 0)
	}
	s.l2.Put("kl2", []byte("old-kl2"), 9, 0)
	if s.shape.Orca == "l1only" {
		s.l1.Put("kl2", []byte("old-kl2"), 9, 0)
	}
}

func cmdKeys(c wire.Cmd) []string {
	if c.IsGet() {
		return c.Keys
	}
	return []string{c.Key}
}

func childC12(args []string) int {
	run, finish := childRun("C12", "fault_enumeration")
	shapes := []c12Shape{{"l1only", false}, {"l1only", true}, {"l1l2", false}, {"l1l2", true}, {"l1l2batch", false}, {"l1l2batch", true}}
	for _, shape := range shapes {
		srv := newC12Server(shape)
		for _, binary := range []bool{true, false} {
			for _, cmd := range c12Commands(binary) {
				// dry run: how many calls does the command make on each component?
				srv.seed()
				dry := srv.connect(binary, nil)
				res, err, stuck := doWithWatchdog(dry, cmd, 20*time.Second)
				dry.cl.Close()
				if err != nil || stuck || res.Class == "closed" {
					run.Inconclusive(fmt.Sprintf("%s %s dry run of %s failed: %v %v", shape, protoName(binary), cmd.Short(), res.Class, err))
					srv.relock()
					continue
				}
				<-dry.done
				counts := dry.plan.counts
				what := fmt.Sprintf("%s|%s|%s", shape, protoName(binary), opKind(cmd))
				if held, probs := srv.tab.snapshot(); held != 0 || len(probs) > 0 {
					run.Violation(what+"|fault-free|"+firstProblem(held, probs), map[string]interface{}{"command": cmd.Short(), "problems": probs, "held": held})
					srv.relock()
				}
				for _, comp := range []string{"l1", "l2", "res"} {
					n := counts[comp]
					for idx := 1; idx <= n; idx++ {
						if n > 6 && idx > 2 && idx < n-1 && !run.Thorough() {
							continue
						}
						for _, kind := range []string{"panic", "panic-error", "panic-eof", "panic-runtime", "ioerr", "apperr", "panic+closeerr", "ioerr+closeerr"} {
							if strings.HasSuffix(kind, "+closeerr") && comp == "res" {
								continue // the backend handles are what reports close errors
							}
							if c12Stuck >= 4 {
								run.Count("fault_cases_skipped_after_4_stuck_requests", 1)
								continue
							}
							announceCase(fmt.Sprintf("%s %s#%d %s", what, comp, idx, kind))
							srv.seed()
							plan := &faultPlan{counts: map[string]int{}, comp: comp, at: idx, kind: kind}
							conn := srv.connect(binary, plan)
							res, err, stuck := doWithWatchdog(conn, cmd, 15*time.Second)
							run.Eval(1)
							run.Count("fault_cases", 1)
							run.Distinct(fmt.Sprintf("%s|%s|%d|%s", what, comp, idx, kind))
							w := map[string]interface{}{"shape": shape.String(), "protocol": protoName(binary), "command": cmd.Short(), "fault": fmt.Sprintf("%s call #%d: %s", comp, idx, kind), "client_saw": brief(res)}
							sig := fmt.Sprintf("%s|%s %s", what, comp, kind)
							bad := ""
							switch {
							case stuck:
								c12Stuck++
								w["goroutines"] = lastLines(filterDump(allStacks()), 80)
								bad = "the client neither gets a reply nor is closed (request stuck)"
							case err != nil && errors.Is(err, wire.ErrMalformed):
								bad = "malformed reply: " + canonAnomaly(err.Error())
							case !plan.fired:
								run.Count("faults_not_reached", 1)
							case strings.HasPrefix(kind, "panic") && res.Class != "closed":
								// the sentinel was answered, so the loop swallowed the panic and went on
								bad = "a panic underneath the command does not close the connection"
								if res.Replies == 0 || (cmd.IsGet() && res.Terminators == 0) {
									bad = "a panic underneath the command is swallowed: the client is neither answered nor closed"
								}
							}
							conn.cl.Close()
							select {
							case <-conn.done:
							case <-time.After(10 * time.Second):
								if bad == "" {
									w["goroutines"] = lastLines(filterDump(allStacks()), 80)
									bad = "the connection's loop does not end after the client went away"
								}
							}
							held, probs := srv.tab.snapshot()
							if bad == "" && (held != 0 || len(probs) > 0) {
								bad = firstProblem(held, probs)
								w["problems"] = probs
							}
							relock := held != 0
							// the next command on the same keys from any connection proceeds
							if bad == "" {
								probe := srv.connect(binary, nil)
								for _, k := range cmdKeys(cmd) {
									r2, e2, stuck2 := doWithWatchdog(probe, wire.Cmd{Op: "set", Key: k, Value: []byte("probe"), Opaque: 0x77}, 10*time.Second)
									run.Count("probe_commands", 1)
									if stuck2 || e2 != nil || r2.Class != "ok" {
										w["probe_key"] = k
										w["goroutines"] = lastLines(filterDump(allStacks()), 80)
										bad = "the next command on the same key from another connection does not proceed"
										relock = true
										break
									}
								}
								probe.cl.Close()
							}
							if bad != "" {
								run.Violation(sig+"|"+bad, w)
							}
							if relock {
								srv.relock()
							}
						}
					}
				}
				if shape.Orca == "l1l2" && binary && cmd.Op == "set" && !cmd.QuietSet {
					run.Sample(map[string]interface{}{"shape": shape.String(), "command": cmd.Short(), "calls_fault_free": counts})
				}
			}
		}
		// clients vanishing mid-command: the backend reply is held back, the client goes away
		for i := 0; i < run.Pick(10, 60); i++ {
			srv.seed()
			binary := i%2 == 0
			cmds := c12Commands(binary)
			cmd := cmds[i%len(cmds)]
			announceCase(fmt.Sprintf("%s vanish %s", shape, cmd.Short()))
			hold := make(chan struct{})
			srv.l1.SetGate(func(conn int, r *fakemc.Req) { <-hold })
			conn := srv.connect(binary, nil)
			conn.cl.Send(conn.cl.Encode(cmd))
			time.Sleep(2 * time.Millisecond)
			conn.cl.Close()
			srv.l1.SetGate(nil)
			close(hold)
			run.Eval(1)
			run.Count("vanish_cases", 1)
			run.Distinct(fmt.Sprintf("vanish|%s|%v|%s", shape, binary, opKind(cmd)))
			select {
			case <-conn.done:
			case <-time.After(10 * time.Second):
				run.Violation(fmt.Sprintf("%s|client vanished|the connection's loop does not end", shape), map[string]interface{}{"command": cmd.Short(), "goroutines": lastLines(filterDump(allStacks()), 60)})
				srv.relock()
				continue
			}
			if held, probs := srv.tab.snapshot(); held != 0 || len(probs) > 0 {
				run.Violation(fmt.Sprintf("%s|client vanished|%s", shape, firstProblem(held, probs)), map[string]interface{}{"command": cmd.Short(), "problems": probs})
				srv.relock()
			}
		}
		// opposite-order multi-key gets with writers: must all complete, never two locks held
		rounds := run.Pick(150, 2000)
		announceCase(fmt.Sprintf("%s contention", shape))
		srv.seed()
		var wg sync.WaitGroup
		errs := make(chan string, 8)
		worker := func(binary bool, mk func(i int) wire.Cmd) {
			defer wg.Done()
			c := srv.connect(binary, nil)
			defer c.cl.Close()
			for i := 0; i < rounds; i++ {
				r, err := c.cl.Do(mk(i))
				if err != nil || r.Class == "closed" || len(r.Anomalies) > 0 {
					errs <- fmt.Sprintf("%v %v %v", r.Class, r.Anomalies, err)
					return
				}
			}
		}
		wg.Add(4)
		go worker(true, func(i int) wire.Cmd {
			return wire.Cmd{Op: "get", Keys: []string{"ka", "kb", "kc"}, Opaque: uint32(0x1000 + i*8), NoopEnd: i%2 == 0}
		})
		go worker(false, func(i int) wire.Cmd { return wire.Cmd{Op: "get", Keys: []string{"kc", "kb", "ka"}} })
		go worker(true, func(i int) wire.Cmd {
			return wire.Cmd{Op: "set", Key: []string{"kb", "ka", "kc"}[i%3], Value: []byte(fmt.Sprint("w", i)), Opaque: uint32(0x9000 + i)}
		})
		go worker(false, func(i int) wire.Cmd {
			return wire.Cmd{Op: []string{"append", "delete", "add"}[i%3], Key: []string{"kc", "kb"}[i%2], Value: []byte("x")}
		})
		done := make(chan struct{})
		go func() { wg.Wait(); close(done) }()
		run.Eval(1)
		run.Distinct("contention|" + shape.String())
		select {
		case <-done:
			run.Count("contention_rounds", int64(rounds))
		case <-time.After(120 * time.Second):
			run.Violation(fmt.Sprintf("%s|contention|multi-key gets in opposite orders with writers do not complete (deadlock)", shape), map[string]interface{}{"goroutines": lastLines(filterDump(allStacks()), 80)})
			panic("deadlock in contention case")
		}
		select {
		case e := <-errs:
			run.Violation(fmt.Sprintf("%s|contention|a command failed: %s", shape, canonAnomaly(e)), map[string]interface{}{"error": e})
		default:
		}
		if held, probs := srv.tab.snapshot(); held != 0 || len(probs) > 0 {
			run.Violation(fmt.Sprintf("%s|contention|%s", shape, firstProblem(held, probs)), map[string]interface{}{"problems": probs, "held": held})
		}
		run.Count("lock_acquisitions_observed", srv.tab.acquires+c12Acquires)
		c12Acquires = 0
	}
	return finish()
}

func firstProblem(held int, probs []string) string {
	if len(probs) > 0 {
		p := probs[0]
		if strings.Contains(p, "two key locks") {
			return p
		}
		return canonAnomaly(p)
	}
	return "a key lock is still held after the command is over"
}
