// Command check runs the runtime monitors for the rend properties.
//
//	check <Cxx> [quick|thorough] [--replay file]
//	check --child <name> <args...>      (internal: isolated in-process batches)
package main

import (
	"fmt"
	"os"
	"sort"
	"strings"
)

type checkFn func(tier string, replay string) int

var checks = map[string]checkFn{}

type childFn func(args []string) int

var children = map[string]childFn{}

func main() {
	if len(os.Args) >= 3 && os.Args[1] == "--child" {
		// rend prints diagnostics with fmt.Printf; keep them out of the verdict stream
		if devnull, err := os.OpenFile(os.DevNull, os.O_WRONLY, 0); err == nil {
			os.Stdout = devnull
		}
		fn, ok := children[os.Args[2]]
		if !ok {
			fmt.Fprintf(os.Stderr, "unknown child %q\n", os.Args[2])
			os.Exit(3)
		}
		os.Exit(fn(os.Args[3:]))
	}
	if len(os.Args) < 2 {
		usage()
	}
	id := strings.ToUpper(os.Args[1])
	fn, ok := checks[id]
	if !ok {
		usage()
	}
	tier := os.Getenv("VERIF_TIER")
	replay := ""
	args := os.Args[2:]
	for i := 0; i < len(args); i++ {
		switch args[i] {
		case "quick", "thorough":
			if os.Getenv("VERIF_TIER") == "" {
				tier = args[i]
			}
		case "--replay":
			if i+1 < len(args) {
				replay = args[i+1]
				i++
			}
		}
	}
	if tier != "thorough" {
		tier = "quick"
	}
	os.Exit(fn(tier, replay))
}

func usage() {
	var ids []string
	for k := range checks {
		ids = append(ids, k)
	}
	sort.Strings(ids)
	fmt.Fprintf(os.Stderr, "usage: check <%s> [quick|thorough] [--replay file]\n", strings.Join(ids, "|"))
	os.Exit(3)
}
