// Command check runs the runtime monitors for the rend properties.
//
//	check <Cxx> [quick|thorough] [--replay file]
//	check --child <name> <args...>      (internal: isolated in-process batches)
package main

import (
	"encoding/json"
	"fmt"
	"os"
	"os/exec"
	"path/filepath"
	"sort"
	"strings"
)

type checkFn func(tier string, replay string) int

var checks = map[string]checkFn{}

type childFn func(args []string) int

var children = map[string]childFn{}

func main() {
	if len(os.Args) >= 3 && os.Args[1] == "--child" {
		// rend prints diagnostics with fmt.Printf; keep them out of the verdict stream
		if devnull, err := os.OpenFile(os.DevNull, os.O_WRONLY, 0); err == nil {
			os.Stdout = devnull
		}
		fn, ok := children[os.Args[2]]
		if !ok {
			fmt.Fprintf(os.Stderr, "unknown child %q\n", os.Args[2])
			os.Exit(3)
		}
		os.Exit(fn(os.Args[3:]))
	}
	if len(os.Args) < 2 {
		usage()
	}
	id := strings.ToUpper(os.Args[1])
	fn, ok := checks[id]
	if !ok {
		usage()
	}
	tier := os.Getenv("VERIF_TIER")
	replay := ""
	args := os.Args[2:]
	for i := 0; i < len(args); i++ {
		switch args[i] {
		case "quick", "thorough":
			if os.Getenv("VERIF_TIER") == "" {
				tier = args[i]
			}
		case "--replay":
			if i+1 < len(args) {
				replay = args[i+1]
				i++
			}
		}
	}
	if tier != "thorough" {
		tier = "quick"
	}
	if replay != "" {
		// Case lists are a pure function of (check, tier, VERIF_SEED): a violation is replayed
		// by re-running the check with the seed and tier recorded in the replay file; the
		// recorded signature tells which case to look for.
		var rf struct {
			Property  string `json:"property"`
			Seed      int64  `json:"seed"`
			Tier      string `json:"tier"`
			Signature string `json:"signature"`
		}
		b, err := os.ReadFile(replay)
		if err != nil || json.Unmarshal(b, &rf) != nil {
			fmt.Fprintf(os.Stderr, "cannot read replay file %s\n", replay)
			os.Exit(3)
		}
		fmt.Printf("replaying %s: seed=%d tier=%s\n  expecting signature: %s\n", replay, rf.Seed, rf.Tier, rf.Signature)
		os.Setenv("VERIF_SEED", fmt.Sprint(rf.Seed))
		if rf.Tier == "thorough" || rf.Tier == "quick" {
			tier = rf.Tier
		}
		if os.Getenv("VERIF_OUT_DIR") == "" {
			os.Setenv("VERIF_OUT_DIR", filepath.Join(os.TempDir(), "verif-replay-out"))
		}
		// evid read its environment at start-up: re-exec with the new one
		cmd := exec.Command(os.Args[0], id, tier)
		cmd.Stdout, cmd.Stderr, cmd.Env = os.Stdout, os.Stderr, os.Environ()
		if err := cmd.Run(); err != nil {
			if ee, ok := err.(*exec.ExitError); ok {
				os.Exit(ee.ExitCode())
			}
			os.Exit(3)
		}
		os.Exit(0)
	}
	os.Exit(fn(tier, replay))
}

func usage() {
	var ids []string
	for k := range checks {
		ids = append(ids, k)
	}
	sort.Strings(ids)
	fmt.Fprintf(os.Stderr, "usage: check <%s> [quick|thorough] [--replay file]\n", strings.Join(ids, "|"))
	os.Exit(3)
}
