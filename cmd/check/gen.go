package main

import (
	"fmt"
	"math/rand"
	"strings"

	"verif/wire"
)

// chunkPayload is the per-chunk payload of the chunking backend for a key of length l, as the
// statement of C16 defines it (slab 1184, item overhead 67+4 for the suffix, 16-byte token).
func chunkPayload(l int) int { return 1184 - 71 - l - 16 }

// makeValue builds a value of length n that identifies write id: an ASCII prefix followed by a
// deterministic filler containing every byte value (including CR, LF and 0x80).
func makeValue(id uint32, n int) []byte {
	b := make([]byte, n)
	pre := fmt.Sprintf("<%d>", id)
	for i := range b {
		if i < len(pre) {
			b[i] = pre[i]
		} else {
			b[i] = byte(uint32(i)*7 + id*131 + uint32(i>>8)*3)
		}
	}
	return b
}

var ttlClasses = []string{"0", "1000", "100000", "30d", "30d+1", "abs-future", "abs-past"}

// ttlClassesFar adds an absolute time more than 30 days ahead (C09 only: the fake L2's
// "remaining seconds" gete convention cannot express it, which merely keeps L1 empty).
var ttlClassesFar = append(append([]string(nil), ttlClasses...), "abs-far")

// ttlValue maps a TTL class to an exptime given the virtual clock origin.
func ttlValue(class string, t0 uint32) uint32 {
	switch class {
	case "0":
		return 0
	case "1000":
		return 1000
	case "100000":
		return 100000
	case "30d":
		return 2592000
	case "30d+1":
		return 2592001 // already an absolute time, long past
	case "abs-future":
		return t0 + 1000000
	case "abs-past":
		return t0 - 1000000
	case "abs-far":
		return t0 + 40*24*3600
	}
	panic("ttl class " + class)
}

type genOpts struct {
	Binary     bool
	Keys       []string
	MinLen     int
	MaxLen     int
	TTLs       []string // classes
	T0         uint32
	AllowGat   bool
	AllowQuiet bool
	AllowMulti bool
	Ports      []int // ports to alternate between (0 main, 1 batch)
	ValueLens  []int
	Ops        []string // weighted list of ops to draw from (nil = default)
	NoFlags    bool
}

type gen struct {
	rng    *rand.Rand
	nextID uint32
	opaque uint32
}

func newGen(seed int64) *gen {
	return &gen{rng: rand.New(rand.NewSource(seed)), nextID: 1, opaque: 0x1000}
}

func (g *gen) pick(ss []string) string { return ss[g.rng.Intn(len(ss))] }

func (g *gen) value(lens []int) []byte {
	n := lens[g.rng.Intn(len(lens))]
	id := g.nextID
	g.nextID++
	return makeValue(id, n)
}

func (g *gen) flags() uint32 {
	switch g.rng.Intn(6) {
	case 0:
		return 0
	case 1:
		return 1
	case 2:
		return 0xFFFFFFFF
	case 3:
		return 0x80000000
	}
	return g.rng.Uint32()
}

var defaultOps = []string{
	"set", "set", "set", "add", "add", "replace", "replace", "append", "prepend",
	"delete", "delete", "touch", "get", "get", "get", "mget", "mget", "gat", "gat", "setq",
}

// sequence generates a command sequence.
func (g *gen) sequence(o genOpts) []wire.Cmd {
	n := o.MinLen + g.rng.Intn(o.MaxLen-o.MinLen+1)
	ops := o.Ops
	if ops == nil {
		ops = defaultOps
	}
	var out []wire.Cmd
	for len(out) < n {
		op := g.pick(ops)
		c := wire.Cmd{Key: g.pick(o.Keys)}
		if len(o.Ports) > 0 {
			c.Port = o.Ports[g.rng.Intn(len(o.Ports))]
		}
		g.opaque += 16
		c.Opaque = g.opaque
		ttl := ttlValue(g.pick(o.TTLs), o.T0)
		switch op {
		case "set", "add", "replace":
			c.Op = op
			c.Value = g.value(o.ValueLens)
			if !o.NoFlags {
				c.Flags = g.flags()
			}
			c.TTL = ttl
		case "setq":
			if !o.Binary || !o.AllowQuiet {
				continue
			}
			c.Op = g.pick([]string{"set", "add", "replace", "append"})
			c.QuietSet = true
			c.Value = g.value(o.ValueLens)
			if c.Op != "append" {
				if !o.NoFlags {
					c.Flags = g.flags()
				}
				c.TTL = ttl
			}
		case "append", "prepend":
			c.Op = op
			c.Value = g.value(o.ValueLens)
		case "delete":
			c.Op = op
		case "touch":
			c.Op = op
			c.TTL = ttl
		case "gat":
			if !o.Binary || !o.AllowGat {
				continue
			}
			c.Op = op
			c.TTL = ttl
		case "get":
			c.Op = "get"
			c.Keys = []string{c.Key}
			c.Key = ""
			if o.Binary && g.rng.Intn(4) == 0 {
				c.NoopEnd = true
			}
		case "mget":
			if !o.AllowMulti {
				continue
			}
			c.Op = "get"
			c.Key = ""
			k := 2 + g.rng.Intn(4)
			for i := 0; i < k; i++ {
				c.Keys = append(c.Keys, g.pick(o.Keys))
			}
			if o.Binary {
				c.NoopEnd = g.rng.Intn(2) == 0
			}
			g.opaque += uint32(k)
		default:
			panic("gen: op " + op)
		}
		out = append(out, c)
	}
	return out
}

// kindSeq renders the op-kind sequence with canonical key names (k0, k1, ... by first use).
func kindSeq(cmds []wire.Cmd) string {
	names := map[string]string{}
	name := func(k string) string {
		if n, ok := names[k]; ok {
			return n
		}
		n := fmt.Sprintf("k%d", len(names))
		names[k] = n
		return n
	}
	var parts []string
	for _, c := range cmds {
		s := c.Op
		if c.QuietSet {
			s += "q"
		}
		if c.Port == 1 {
			s += "@b"
		}
		if c.IsGet() {
			for _, k := range c.Keys {
				s += " " + name(k)
			}
			if c.NoopEnd {
				s += " noop"
			}
		} else if c.Key != "" {
			s += " " + name(c.Key)
		}
		parts = append(parts, s)
	}
	return strings.Join(parts, "; ")
}

// hasCollision reports whether at least two commands touch one key.
func hasCollision(cmds []wire.Cmd) bool {
	seen := map[string]int{}
	for _, c := range cmds {
		if c.IsGet() {
			for _, k := range c.Keys {
				seen[k]++
			}
		} else if c.Key != "" {
			seen[c.Key]++
		}
	}
	for _, n := range seen {
		if n > 1 {
			return true
		}
	}
	return false
}
