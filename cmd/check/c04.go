package main

import (
	"bytes"
	"fmt"
	"math/rand"
	"strconv"
	"strings"
	"time"

	"github.com/netflix/rend/handlers/memcached/chunked"

	"verif/evid"
	"verif/fakemc"
	"verif/model"
	"verif/wire"
)

func init() {
	checks["C04"] = checkC04
	children["C04"] = childC04
}

func checkC04(tier, replay string) int {
	run := evid.NewRun("C04", tier, "exploration")
	run.Rule("chunked.Handler over an in-memory connection to fakemc: (a) set/get/gat/delete round trips for a dense grid of value lengths around every multiple of the chunk payload, " +
		"(b) all key lengths 1..250, (c) random command sequences over derivation-hostile keys (a, a-0, a-meta, a-1) with model differential; key slices with and without spare capacity. " +
		"After every command the backend request log is checked: every backend key is K-meta or K-<i> of the client key operated on, no backend entry is shared by two client keys, a delete leaves no entry of the deleted version. " +
		"distinct_nontrivial = distinct (key length, value length, spare-capacity) round trips plus distinct op-kind sequences")
	run.Assume("orphan chunks with index >= the current chunk count (left by a previous longer value) are counted, not judged")
	res := spawnChild(run, "C04", 25*time.Minute, nil)
	if res.Crashed || res.TimedOut {
		w := map[string]interface{}{"last_case": res.LastCase, "stderr_tail": lastLines(res.Stderr, 60)}
		if res.TimedOut {
			run.Inconclusive("C04 child did not finish within its watchdog; last case: " + res.LastCase)
		} else {
			run.Violation("chunked handler|process crashed|"+crashKind(res.Stderr), w)
		}
	}
	run.Floor("round_trips", 200)
	run.Floor("backend_requests_checked", 1000)
	return run.Finish()
}

// crashKind extracts a canonical first line of a Go crash.
func crashKind(stderr string) string {
	for _, l := range strings.Split(stderr, "\n") {
		if strings.HasPrefix(l, "panic:") || strings.HasPrefix(l, "fatal error:") {
			return canonAnomaly(l)
		}
	}
	return "unknown"
}

// chunkMonitor watches the request log of the fake backend under a chunked handler.
type chunkMonitor struct {
	st       *fakemc.Store
	owner    map[string]string // backend key -> client key that wrote it
	chunks   map[string]int    // client key -> number of chunks of the current version (model side)
	orphans  int64
	requests int64
}

func newChunkMonitor(st *fakemc.Store) *chunkMonitor {
	return &chunkMonitor{st: st, owner: map[string]string{}, chunks: map[string]int{}}
}

// derivedIndex classifies backend key bk relative to client key k: -1 = metadata, >= 0 chunk
// index, -2 = not derived from k.
func derivedIndex(k, bk string) int {
	if !strings.HasPrefix(bk, k+"-") {
		return -2
	}
	suf := bk[len(k)+1:]
	if suf == "meta" {
		return -1
	}
	if suf == "" || len(suf) > 4 {
		return -2
	}
	for _, ch := range suf {
		if ch < '0' || ch > '9' {
			return -2
		}
	}
	if len(suf) > 1 && suf[0] == '0' {
		return -2
	}
	n, _ := strconv.Atoi(suf)
	return n
}

// check inspects the requests the backend received for command c; it returns a diff or "".
func (cm *chunkMonitor) check(c wire.Cmd, newChunks int) string {
	log := cm.st.Log()
	cm.st.ResetLog()
	cm.requests += int64(len(log))
	clientKeys := c.Keys
	if !c.IsGet() {
		clientKeys = []string{c.Key}
	}
	for _, rq := range log {
		if rq.Op == fakemc.OpNoop {
			continue
		}
		ok := false
		for _, k := range clientKeys {
			idx := derivedIndex(k, rq.Key)
			if idx == -2 {
				continue
			}
			bound := cm.chunks[k]
			if newChunks > bound {
				bound = newChunks
			}
			if idx >= 0 && idx >= bound {
				return "backend request for a chunk index beyond the value's chunk count"
			}
			ok = true
			isWrite := rq.Op == fakemc.OpSet || rq.Op == fakemc.OpAdd || rq.Op == fakemc.OpReplace
			if isWrite && rq.Status == 0 {
				if prev, seen := cm.owner[rq.Key]; seen && prev != k {
					return "two client keys share one backend entry"
				}
				cm.owner[rq.Key] = k
			}
			break
		}
		if !ok {
			return "backend request for a key not derived from the client key"
		}
	}
	return ""
}

// afterDelete verifies that nothing of the deleted version is left.
func (cm *chunkMonitor) afterDelete(k string, hadChunks int) string {
	snap := cm.st.SnapshotAll()
	if _, ok := snap[k+"-meta"]; ok {
		return "metadata entry survives a successful delete"
	}
	for bk := range snap {
		idx := derivedIndex(k, bk)
		if idx >= 0 {
			if idx < hadChunks {
				return "chunk of the deleted version survives a successful delete"
			}
			cm.orphans++
		}
	}
	return ""
}

func numChunksFor(keyLen, valLen int) int {
	p := chunkPayload(keyLen)
	return (valLen + p - 1) / p
}

type c04Env struct {
	run   *evid.Run
	st    *fakemc.Store
	h     chunked.Handler
	m     *model.Map
	cm    *chunkMonitor
	trace []traceEntry
}

func newC04Env(run *evid.Run) *c04Env {
	st := fakemc.NewStore("L1")
	e := &c04Env{run: run, st: st, m: model.New(st.Now), cm: newChunkMonitor(st)}
	e.h = chunked.NewHandler(st.Pipe())
	return e
}

func (e *c04Env) close() { e.h.Close() }

// exec runs one command against handler and model; returns "" or what differed.
func (e *c04Env) exec(c wire.Cmd, spare int) string {
	hadChunks := e.cm.chunks[c.Key]
	exp := expected(e.m, c, true)
	obs := handlerExec(e.h, c, spare)
	diff := diffResult(c, exp, obs, true)
	newChunks := 0
	switch c.Op {
	case "set", "add", "replace":
		newChunks = numChunksFor(len(c.Key), len(c.Value))
	case "append", "prepend":
		if it := e.m.M[c.Key]; it != nil {
			newChunks = numChunksFor(len(c.Key), len(it.Value))
		}
	}
	if strings.HasPrefix(obs.Class, "panic:") {
		diff = "handler panicked"
	}
	if d := e.cm.check(c, newChunks); d != "" && diff == "" {
		diff = d
	}
	if obs.Class == model.OK {
		switch c.Op {
		case "set", "add", "replace", "append", "prepend":
			if e.m.Live(c.Key) != nil && newChunks > e.cm.chunks[c.Key] || e.m.Live(c.Key) != nil {
				e.cm.chunks[c.Key] = newChunks
			}
		case "delete":
			if d := e.cm.afterDelete(c.Key, hadChunks); d != "" && diff == "" {
				diff = d
			}
			delete(e.cm.chunks, c.Key)
		}
	}
	e.trace = append(e.trace, traceEntry{Cmd: c.Short(), Expected: brief(exp), Observed: brief(obs), Diff: diff})
	return diff
}

func childC04(args []string) int {
	run, finish := childRun("C04", "exploration")
	seed := run.Seed()
	rng := rand.New(rand.NewSource(seed*31 + 4))

	// (a) + (b): round trips
	type rt struct{ kl, vl, spare int }
	var cases []rt
	keyLens := []int{1, 8, 250}
	ks := []int{4, 5, 10}
	if run.Thorough() {
		keyLens = []int{1, 2, 7, 8, 9, 100, 249, 250}
		ks = []int{4, 5, 10, 50, 100, 998, 999}
	}
	for _, kl := range keyLens {
		p := chunkPayload(kl)
		dense := 3*p + 2
		step := 1
		if !run.Thorough() {
			step = 3
		}
		for vl := 0; vl <= dense; vl += step {
			cases = append(cases, rt{kl, vl, (vl % 3) * 4})
		}
		for m := 1; m <= 3; m++ {
			for d := -1; d <= 1; d++ {
				cases = append(cases, rt{kl, m*p + d, 0}, rt{kl, m*p + d, 8})
			}
		}
		for _, k := range ks {
			for d := -1; d <= 1; d++ {
				cases = append(cases, rt{kl, k*p + d, int(rng.Intn(2)) * 8})
			}
		}
	}
	for kl := 1; kl <= 250; kl++ {
		if !run.Thorough() && kl%5 != 0 && kl > 12 {
			continue
		}
		p := chunkPayload(kl)
		for _, vl := range []int{0, 1, p, p + 1} {
			cases = append(cases, rt{kl, vl, (kl % 2) * 5})
		}
	}
	env := newC04Env(run)
	env.st.SetLogging(true)
	id := uint32(1)
	hangs := 0
	for ci, cs := range cases {
		if hangs >= 3 {
			run.Count("round_trips_skipped_after_3_hangs", 1)
			continue
		}
		key := strings.Repeat("k", cs.kl-1) + string(rune('a'+ci%26))
		if cs.kl == 1 {
			key = string(rune('a' + ci%26))
		}
		val := makeValue(id, cs.vl)
		id++
		flags := rng.Uint32()
		env.trace = nil
		announceCase(fmt.Sprintf("roundtrip keylen=%d vallen=%d spare=%d", cs.kl, cs.vl, cs.spare))
		seq := []wire.Cmd{
			{Op: "set", Key: key, Value: val, Flags: flags, Opaque: 7},
			{Op: "get", Keys: []string{key}, Opaque: 9},
			{Op: "gat", Key: key, TTL: 1000, Opaque: 11},
			{Op: "touch", Key: key, TTL: 2000, Opaque: 12},
			{Op: "get", Keys: []string{key, key}, Opaque: 13, NoopEnd: true},
			{Op: "delete", Key: key, Opaque: 15},
			{Op: "get", Keys: []string{key}, Opaque: 17},
		}
		run.Eval(1)
		run.Count("round_trips", 1)
		run.Distinct(fmt.Sprintf("rt|%d|%d|%d", cs.kl, cs.vl, cs.spare))
		if ci == 3 {
			run.Sample(map[string]interface{}{"kind": "roundtrip", "key_len": cs.kl, "value_len": cs.vl, "spare_cap": cs.spare, "chunks": numChunksFor(cs.kl, cs.vl)})
		}
		for _, c := range seq {
			if d := env.exec(c, cs.spare); d != "" {
				run.Violation(fmt.Sprintf("chunked|roundtrip %s|spare=%v|%s|%s", lenClassExact(cs.kl, cs.vl), cs.spare > 0, c.Op, d),
					map[string]interface{}{"key_len": cs.kl, "value_len": cs.vl, "spare_cap": cs.spare, "trace": tail(env.trace, 6), "store_keys": env.st.Keys()})
				// start from a clean handler after a failure
				env.close()
				env = newC04Env(run)
				if strings.Contains(d, "observed=hang") {
					hangs++
				}
				break
			}
		}
		if len(env.st.SnapshotAll()) > 2000 {
			env.st.EvictAll()
		}
	}
	run.Count("backend_requests_checked", env.cm.requests)
	env.close()

	// (c) random sequences over derivation-hostile keys
	nseq := run.Pick(1200, 12000)
	g := newGen(seed*131 + 7)
	keys := []string{"a", "a-0", "a-meta", "a-1"}
	for i := 0; i < nseq; i++ {
		env := newC04Env(run)
		o := genOpts{Binary: true, Keys: keys, MinLen: 6, MaxLen: 30, TTLs: []string{"0", "1000", "abs-future", "abs-past", "30d+1"}, T0: env.st.T0(),
			AllowGat: true, AllowMulti: true, ValueLens: valueLens(1)}
		cmds := g.sequence(o)
		spare := (i % 3) * 4
		announceCase(fmt.Sprintf("sequence #%d spare=%d: %s", i, spare, kindSeq(cmds)))
		run.Eval(1)
		run.Count("sequence_commands", int64(len(cmds)))
		run.Distinct("seq|" + kindSeq(cmds))
		if i == 0 {
			run.Sample(map[string]interface{}{"kind": "sequence", "spare_cap": spare, "commands": shortCmds(cmds, 12)})
		}
		failed := -1
		diff := ""
		for j, c := range cmds {
			if d := env.exec(c, spare); d != "" {
				failed, diff = j, d
				break
			}
		}
		run.Count("backend_requests_checked", env.cm.requests)
		run.Count("orphan_chunks_seen", env.cm.orphans)
		env.close()
		if failed >= 0 && strings.Contains(diff, "observed=hang") {
			hangs++
			run.Violation(fmt.Sprintf("chunked|sequence|spare=%v|%s|%s", spare > 0, cmds[failed].Op, diff),
				map[string]interface{}{"spare_cap": spare, "commands": cmds[:failed+1], "trace": tail(env.trace, 8)})
			if hangs >= 6 {
				break
			}
			continue
		}
		if failed >= 0 {
			small := shrink(cmds[:failed+1], diff, func(cand []wire.Cmd) string {
				e2 := newC04Env(run)
				defer e2.close()
				for _, c := range cand {
					if d := e2.exec(c, spare); d != "" {
						return d
					}
				}
				return ""
			}, 200)
			e3 := newC04Env(run)
			for _, c := range small {
				if e3.exec(c, spare) != "" {
					break
				}
			}
			run.Violation(fmt.Sprintf("chunked|sequence|spare=%v|%s|%s", spare > 0, kindSeqLens(small), diff),
				map[string]interface{}{"spare_cap": spare, "commands": small, "trace": tail(e3.trace, 10), "store_keys": e3.st.Keys()})
			e3.close()
		}
	}
	_ = bytes.Equal
	return finish()
}

func lenClassExact(kl, vl int) string {
	p := chunkPayload(kl)
	switch {
	case vl == 0:
		return "len0"
	case vl%p == 0:
		return "k*payload"
	case vl%p == p-1:
		return "k*payload-1"
	case vl%p == 1:
		return "k*payload+1"
	}
	return "other"
}
