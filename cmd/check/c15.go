package main

import (
	"fmt"
	"github.com/netflix/rend/handlers/memcached/cluster"
	"io"
	"math/rand"
	"net"
	"strings"
	"sync"
	"time"
	"verif/fakemc"

	"verif/evid"
	"verif/harness"
	"verif/model"
	"verif/wire"
)

func init() { checks["C15"] = checkC15 }

type c15Stream struct {
	Name  string
	Cmds  []wire.Cmd
	Extra []byte // raw bytes appended (e.g. after quit)
}

func c15Streams(binary bool, chunkedL1 bool, thorough bool, rng *rand.Rand) []c15Stream {
	big := makeValue(77, 3*chunkPayload(2)-10)
	small := makeValue(78, 9)
	var out []c15Stream
	one := func(name string, c wire.Cmd) { out = append(out, c15Stream{Name: name, Cmds: []wire.Cmd{c}}) }
	one("set", wire.Cmd{Op: "set", Key: "ka", Value: small, Flags: 5, Opaque: 1})
	one("set-3-chunks", wire.Cmd{Op: "set", Key: "ka", Value: big, Flags: 5, Opaque: 1})
	one("get", wire.Cmd{Op: "get", Keys: []string{"ka"}, Opaque: 2})
	one("delete", wire.Cmd{Op: "delete", Key: "ka", Opaque: 3})
	one("touch", wire.Cmd{Op: "touch", Key: "ka", TTL: 100, Opaque: 4})
	one("append", wire.Cmd{Op: "append", Key: "ka", Value: small, Opaque: 5})
	if binary {
		one("gat", wire.Cmd{Op: "gat", Key: "ka", TTL: 100, Opaque: 6})
		one("quiet-batch-noop", wire.Cmd{Op: "get", Keys: []string{"ka", "kb", "ka"}, Opaque: 10, NoopEnd: true})
		one("quiet-batch-get", wire.Cmd{Op: "get", Keys: []string{"kb", "ka"}, Opaque: 20})
		// a quiet batch without its terminator: encode a NoopEnd batch and drop the noop
		b := wire.EncodeBinary(wire.Cmd{Op: "get", Keys: []string{"ka", "kb"}, Opaque: 30, NoopEnd: true})
		out = append(out, c15Stream{Name: "quiet-batch-unterminated", Cmds: []wire.Cmd{{Op: "raw", Raw: b[:len(b)-24]}}})
		one("setq", wire.Cmd{Op: "set", Key: "ka", Value: small, QuietSet: true, Opaque: 7})
	} else {
		one("multi-get", wire.Cmd{Op: "get", Keys: []string{"ka", "kb", "ka"}})
	}
	out = append(out, c15Stream{Name: "pipeline", Cmds: []wire.Cmd{
		{Op: "set", Key: "ka", Value: small, Opaque: 40}, {Op: "get", Keys: []string{"ka"}, Opaque: 41}, {Op: "add", Key: "ka", Value: small, Opaque: 42},
		{Op: "delete", Key: "kb", Opaque: 43}, {Op: "get", Keys: []string{"ka", "kb"}, Opaque: 44, NoopEnd: binary}, {Op: "noop", Opaque: 47}}})
	out = append(out, c15Stream{Name: "quit-then-bytes", Cmds: []wire.Cmd{{Op: "set", Key: "kb", Value: small, Opaque: 50}, {Op: "quit", Opaque: 51}}, Extra: []byte("get ka\r\nXYZ")})
	if thorough {
		for i := 0; i < 12; i++ {
			g := newGen(int64(rng.Int63()))
			o := genOpts{Binary: binary, Keys: []string{"ka", "kb"}, MinLen: 3, MaxLen: 6, TTLs: []string{"0", "1000"}, AllowGat: true, AllowQuiet: true, AllowMulti: true, ValueLens: []int{0, 5, 1200}}
			out = append(out, c15Stream{Name: fmt.Sprintf("random-pipeline-%d", i), Cmds: g.sequence(o)})
		}
	}
	return out
}

// leakedGoroutines returns the goroutine blocks that run rend code on behalf of a connection.
func leakedGoroutines(dump string) []string {
	var out []string
	for _, b := range goroutineBlocks(dump) {
		if !strings.Contains(b, "github.com/netflix/rend/") {
			continue
		}
		switch {
		case strings.Contains(b, "server.(*DefaultServer).Loop"),
			strings.Contains(b, "server.ListenAndServe.func1"),
			strings.Contains(b, "realHandleGet"),
			strings.Contains(b, "rend/orcas."),
			strings.Contains(b, "rend/protocol/"):
			out = append(out, b)
		}
	}
	return out
}

func checkC15(tier, replay string) int {
	run := evid.NewRun("C15", tier, "fault_enumeration")
	run.Rule("for representative request streams (each command, a 3-chunk set, pipelines, quiet batches with and without terminator, quit followed by bytes) and EVERY prefix length p of the stream (sampled beyond 160 bytes) a client connects, sends p bytes (one write, or byte-wise) and disappears (close, half-close then close, or TCP reset); " +
		"monitors: the fake backends' open-connection counts must return to the pre-connect baseline, a fresh client must be accepted and its set/get/delete on the same keys must match the model (a key left locked would block it), " +
		"and the server's goroutine dump must contain no goroutine serving a connection once all clients are gone. " +
		"distinct_nontrivial = distinct (configuration, protocol, port, stream, prefix length, close kind)")
	run.Assume("'closed' means the fake backend saw EOF/reset on the connection; kernel socket state is not inspected")
	var cfgs []harness.ProxyCfg
	for _, kind := range []string{"std", "chunked"} {
		cfgs = append(cfgs, harness.ProxyCfg{L1Kind: kind}, harness.ProxyCfg{L2: true, L1Kind: kind, Locked: true, MultiReader: kind == "std"})
	}
	cfgs = append(cfgs, harness.ProxyCfg{L2: true, L1Kind: "std"})
	cfgs = append(cfgs, harness.ProxyCfg{L1Kind: "std", Locked: true})
	if run.Thorough() {
		cfgs = append(cfgs, harness.ProxyCfg{L2: true, L1Kind: "chunked"}, harness.ProxyCfg{L1Kind: "chunked", Locked: true},
			harness.ProxyCfg{L1Kind: "batched"}, harness.ProxyCfg{L2: true, L1Kind: "batched", Locked: true}, harness.ProxyCfg{L1Kind: "inmem", Locked: true, MultiReader: true},
			harness.ProxyCfg{L1Kind: "std", UnixMain: true})
	} else {
		cfgs = append(cfgs, harness.ProxyCfg{L2: true, L1Kind: "batched", Locked: true}, harness.ProxyCfg{L1Kind: "inmem", Locked: true})
	}
	type job struct {
		cfg    harness.ProxyCfg
		binary bool
		port   int
	}
	var jobs []job
	for _, cfg := range cfgs {
		for _, binary := range []bool{true, false} {
			jobs = append(jobs, job{cfg, binary, 0})
			if cfg.L2 && (run.Thorough() || binary) {
				jobs = append(jobs, job{cfg, binary, 1})
			}
		}
	}
	sem := make(chan struct{}, 14)
	var wg sync.WaitGroup
	for ji, jb := range jobs {
		wg.Add(1)
		sem <- struct{}{}
		go func(ji int, jb job) {
			defer wg.Done()
			defer func() { <-sem }()
			p, err := harness.StartProxy(jb.cfg)
			if err != nil {
				startFailure(run, jb.cfg.Name(), err)
				return
			}
			defer func() { p.Stop() }()
			rng := rand.New(rand.NewSource(run.Seed()*6000047 + int64(ji)))
			what := fmt.Sprintf("%s|%s|port%d", jb.cfg.Name(), protoName(jb.binary), jb.port)
			baseL1 := p.L1.OpenConns()
			baseL2 := p.L2.OpenConns()
			pooled := jb.cfg.L1Kind == "batched"
			perConn := jb.cfg.L1Kind == "std" || jb.cfg.L1Kind == "chunked"
			violations := 0
			m := model.New(p.L1.Now)
			probeID := uint32(1000)
			for _, st := range c15Streams(jb.binary, jb.cfg.L1Kind == "chunked", run.Thorough(), rng) {
				var stream []byte
				for _, c := range st.Cmds {
					if jb.binary {
						stream = append(stream, wire.EncodeBinary(c)...)
					} else {
						if c.Op == "gat" || c.QuietSet {
							continue
						}
						stream = append(stream, wire.EncodeText(c)...)
					}
				}
				stream = append(stream, st.Extra...)
				var prefixes []int
				for q := 0; q <= len(stream); q++ {
					if q <= 160 || q >= len(stream)-30 || q%97 == 0 {
						prefixes = append(prefixes, q)
					}
				}
				if !run.Thorough() && len(prefixes) > 70 {
					// quick: every third prefix beyond the first 40, always the last ones
					var pp []int
					for i, q := range prefixes {
						if i < 40 || i%3 == 0 || q >= len(stream)-3 {
							pp = append(pp, q)
						}
					}
					prefixes = pp
				}
				for pi, q := range prefixes {
					if violations >= 4 {
						return
					}
					closeKind := []string{"close", "half-close", "reset"}[(pi+ji)%3]
					if jb.cfg.UnixMain && closeKind == "reset" {
						closeKind = "close"
					}
					bytewise := q <= 40 && pi%2 == 1
					acc0 := p.L1.Accepted()
					cl, err := p.Dial(jb.port, jb.binary)
					if err != nil {
						run.Violation(what+"|server refuses a new connection", map[string]interface{}{"stream": st.Name, "prefix": q, "error": err.Error(), "stderr_tail": lastLines(p.Stderr(), 20)})
						return
					}
					if perConn {
						// the server has accepted the connection once its backend connection shows up;
						// only then "back to the baseline" means the connection was torn down
						deadline := time.Now().Add(10 * time.Second)
						for p.L1.Accepted() <= acc0 && time.Now().Before(deadline) {
							time.Sleep(200 * time.Microsecond)
						}
					}
					if bytewise {
						for i := 0; i < q; i++ {
							cl.Send(stream[i : i+1])
						}
					} else if q > 0 {
						cl.Send(stream[:q])
					}
					switch closeKind {
					case "half-close":
						if cw, ok := cl.Conn.(interface{ CloseWrite() error }); ok {
							cw.CloseWrite()
						}
						// drain what the server still sends, then close
						cl.Conn.SetReadDeadline(time.Now().Add(5 * time.Second))
						buf := make([]byte, 4096)
						for {
							if _, err := cl.Conn.Read(buf); err != nil {
								break
							}
						}
						cl.Close()
					case "reset":
						if tc, ok := cl.Conn.(*net.TCPConn); ok {
							tc.SetLinger(0)
						}
						cl.Close()
					default:
						cl.Close()
					}
					run.Eval(1)
					run.Count("disconnects", 1)
					run.Distinct(fmt.Sprintf("%s|%s|%d|%s|%v", what, st.Name, q, closeKind, bytewise))
					run.SetAdd("close_kinds", closeKind)
					// backend connections opened for that client must go away
					ok := true
					if !pooled {
						ok = p.WaitBackendConns(baseL1, baseL2, 25*time.Second)
					} else {
						ok = p.WaitBackendConns(-1, baseL2, 25*time.Second)
					}
					w := map[string]interface{}{"config": jb.cfg, "stream": st.Name, "stream_len": len(stream), "prefix_sent": q, "close": closeKind, "bytewise": bytewise,
						"prefix_hex_tail": fmt.Sprintf("%x", stream[maxInt(0, q-24):q])}
					if !ok {
						w["l1_open"], w["l2_open"] = p.L1.OpenConns(), p.L2.OpenConns()
						w["goroutines"] = lastLines(strings.Join(leakedGoroutines(p.GoroutineDumpKill()), "\n\n"), 80)
						run.Violation(fmt.Sprintf("%s|%s|%s|backend connection still open after the client disconnected", what, st.Name, closeKind), w)
						violations++
						np, err := harness.StartProxy(jb.cfg)
						if err != nil {
							return
						}
						p.Stop()
						p = np
						m = model.New(p.L1.Now)
						continue
					}
					// a fresh client works on the same keys
					if pi%4 == 0 || q == len(stream) {
						fc, err := p.Dial(jb.port, jb.binary)
						if err != nil {
							run.Violation(what+"|server refuses a new connection", w)
							return
						}
						fc.Watchdog = 8 * time.Second
						probeID++
						// outcomes that do not depend on how much of the prefix was executed (after a
						// reset the kernel may drop bytes the server had not read yet)
						m = model.New(p.L1.Now)
						probe := []wire.Cmd{
							{Op: "set", Key: "ka", Value: makeValue(probeID, 20), Flags: probeID, Opaque: 0x910},
							{Op: "set", Key: "kb", Value: makeValue(probeID, 7), Flags: 3, Opaque: 0x911},
							{Op: "get", Keys: []string{"ka", "kb"}, Opaque: 0x920, NoopEnd: jb.binary},
							{Op: "delete", Key: "kb", Opaque: 0x930},
							{Op: "add", Key: "ka", Value: []byte("x"), Opaque: 0x931},
							{Op: "get", Keys: []string{"kb"}, Opaque: 0x940},
							{Op: "delete", Key: "ka", Opaque: 0x950},
						}
						for _, c := range probe {
							exp := expected(m, c, jb.binary)
							obs, err := fc.Do(c)
							run.Count("probe_commands", 1)
							if err != nil {
								w["probe"] = c.Short()
								w["error"] = err.Error()
								w["goroutines"] = lastLines(filterDump(p.GoroutineDumpKill()), 80)
								run.Violation(fmt.Sprintf("%s|%s|%s|a fresh client's command on the same keys does not complete (key left locked?)", what, st.Name, closeKind), w)
								violations++
								np, err := harness.StartProxy(jb.cfg)
								if err != nil {
									return
								}
								p.Stop()
								p = np
								m = model.New(p.L1.Now)
								break
							}
							if d := diffResult(c, exp, obs, jb.binary); d != "" && perConn {
								w["probe"] = c.Short()
								w["expected"], w["observed"] = brief(exp), brief(obs)
								run.Violation(fmt.Sprintf("%s|%s|%s|a fresh client sees a wrong reply after the disconnect: %s", what, st.Name, closeKind, d), w)
								violations++
								break
							}
						}
						fc.Close()
						if !pooled {
							p.WaitBackendConns(baseL1, baseL2, 6*time.Second)
						}
					}
				}
			}
			// a client that leaves after the backend refused part of one of its writes (the
			// handler's error path may have re-established its backend connection)
			if perConn && jb.port == 0 && violations < 4 {
				for round, closeKind := range []string{"close", "reset", "half-close"} {
					cl, err := p.Dial(jb.port, jb.binary)
					if err != nil {
						break
					}
					acc0 := p.L1.Accepted()
					deadline := time.Now().Add(10 * time.Second)
					for p.L1.OpenConns() <= baseL1 && p.L1.Accepted() <= acc0 && time.Now().Before(deadline) {
						time.Sleep(200 * time.Microsecond)
					}
					cl.Watchdog = 10 * time.Second
					for _, idx := range []uint64{1, 2} {
						p.L1.ArmFaults(map[uint64]fakemc.Fault{idx: {Kind: fakemc.FaultStatus, Status: 0x82}})
						cl.Do(wire.Cmd{Op: "set", Key: fmt.Sprintf("refused%d", round), Value: makeValue(uint32(8000+round), 3000), Flags: 1, Opaque: 0x700 + uint32(idx)})
						p.L1.DisarmFaults()
					}
					cl.Do(wire.Cmd{Op: "get", Keys: []string{"ka"}, Opaque: 0x710})
					switch closeKind {
					case "reset":
						if tc, ok := cl.Conn.(*net.TCPConn); ok {
							tc.SetLinger(0)
						}
						cl.Close()
					case "half-close":
						if cw, ok := cl.Conn.(interface{ CloseWrite() error }); ok {
							cw.CloseWrite()
						}
						cl.Conn.SetReadDeadline(time.Now().Add(5 * time.Second))
						io.Copy(io.Discard, cl.Conn)
						cl.Close()
					default:
						cl.Close()
					}
					run.Eval(1)
					run.Count("disconnects", 1)
					run.Count("disconnects_after_a_refused_write", 1)
					run.Distinct(fmt.Sprintf("%s|after-refusal|%s", what, closeKind))
					if !p.WaitBackendConns(baseL1, baseL2, 25*time.Second) {
						run.Violation(fmt.Sprintf("%s|after a refused write|%s|backend connection still open after the client disconnected", what, closeKind), map[string]interface{}{
							"config": jb.cfg, "l1_open": p.L1.OpenConns(), "l2_open": p.L2.OpenConns(), "baseline_l1": baseL1, "baseline_l2": baseL2})
						violations++
						break
					}
				}
			}
			// all clients are gone: no goroutine may still serve a connection
			time.Sleep(50 * time.Millisecond)
			var dump string
			for try := 0; try < 40; try++ {
				if p.OwnsDebugPort() {
					dump, _ = p.DebugGet("/debug/pprof/goroutine?debug=2")
					if len(leakedGoroutines(dump)) == 0 {
						break
					}
					time.Sleep(100 * time.Millisecond)
					continue
				}
				break
			}
			if dump == "" {
				time.Sleep(500 * time.Millisecond)
				dump = p.GoroutineDumpKill()
			}
			run.Count("goroutine_dumps_inspected", 1)
			run.Count("goroutines_in_final_dumps", int64(len(goroutineBlocks(dump))))
			if leaked := leakedGoroutines(dump); len(leaked) > 0 {
				run.Violation(what+"|goroutines still serving a connection after every client disconnected", map[string]interface{}{
					"config": jb.cfg, "leaked": len(leaked), "first": leaked[0]})
			}
			if ji == 0 {
				run.Sample(map[string]interface{}{"config": what, "streams": "each command, 3-chunk set, pipeline, quiet batches, quit+bytes", "final_goroutines": len(goroutineBlocks(dump))})
			}
		}(ji, jb)
	}
	wg.Wait()
	c15HandlerClose(run)
	run.Floor("disconnects", 500)
	run.Floor("goroutine_dumps_inspected", 4)
	return run.Finish()
}

func maxInt(a, b int) int {
	if a > b {
		return a
	}
	return b
}

// c15HandlerClose: what the server does for a departing client is Close() on its backend
// handles; for every handler kind that call must end every backend connection the handle owns
// (the cluster handle owns one per node).
func c15HandlerClose(run *evid.Run) {
	for _, nodes := range []int{1, 2, 3, 5} {
		var stores []*fakemc.Store
		var srvs []*fakemc.Server
		var addrs []string
		for i := 0; i < nodes; i++ {
			st := fakemc.NewStore(fmt.Sprintf("node%d", i))
			srv, err := fakemc.Listen(st, "tcp", "127.0.0.1:0")
			if err != nil {
				run.Inconclusive("cannot listen: " + err.Error())
				return
			}
			stores, srvs, addrs = append(stores, st), append(srvs, srv), append(addrs, srv.Addr)
		}
		h, err := cluster.NewHandler(addrs, "c15")
		if err != nil {
			run.Inconclusive("cluster.NewHandler: " + err.Error())
			return
		}
		for i := 0; i < 20; i++ {
			handlerExec(h, wire.Cmd{Op: "set", Key: fmt.Sprintf("cl%d", i), Value: []byte("v")}, 0)
		}
		h.Close()
		deadline := time.Now().Add(10 * time.Second)
		open := func() []int {
			var o []int
			for _, st := range stores {
				o = append(o, st.OpenConns())
			}
			return o
		}
		sum := func(a []int) (n int) {
			for _, x := range a {
				n += x
			}
			return
		}
		for sum(open()) > 0 && time.Now().Before(deadline) {
			time.Sleep(5 * time.Millisecond)
		}
		run.Eval(1)
		run.Count("handler_closes", 1)
		run.Distinct(fmt.Sprintf("close|cluster|%d", nodes))
		if o := open(); sum(o) > 0 {
			run.Violation("cluster handler|Close|backend connection still open after the client's handle was closed", map[string]interface{}{"nodes": nodes, "open_connections_per_node": o})
		}
		for _, s := range srvs {
			s.Close()
		}
	}
}
