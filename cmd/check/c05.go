package main

import (
	"bytes"
	"fmt"
	"sort"
	"strings"
	"sync"
	"time"

	"github.com/netflix/rend/handlers/memcached/chunked"

	"verif/evid"
	"verif/fakemc"
	"verif/sched"
	"verif/wire"
)

func init() {
	checks["C05"] = checkC05
	children["C05"] = childC05
}

func checkC05(tier, replay string) int {
	run := evid.NewRun("C05", tier, "fault_enumeration")
	run.Rule("(1) loss: a value of n chunks (n = 0..N; exact multiple of the payload, one less, one more; fresh, after a longer and after a shorter overwrite) is written through chunked.Handler, " +
		"then EVERY subset of {metadata, chunk 0..n-1} is removed from the fake backend and Get and GAT are issued: the result must be a miss or exactly (value, flags) of one fully written value. " +
		"(2) interleaving: two sets and a reader on three handlers over three connections to one gated fake backend; a controlled scheduler enumerates the interleavings at backend-request granularity " +
		"(each pipelined GETQ of the reader is individually schedulable); every read must be a miss or one of the two values in full. " +
		"distinct_nontrivial = distinct (overwrite shape, n, length class, lost subset, command) + distinct schedule fingerprints")
	run.Assume("loss = disappearance of whole backend entries (LRU eviction); each backend request is atomic")
	res := spawnChild(run, "C05", 25*time.Minute, nil)
	if res.Crashed || res.TimedOut {
		if res.TimedOut {
			run.Inconclusive("C05 child did not finish; last case: " + res.LastCase)
		} else {
			run.Violation("chunked handler|process crashed|"+crashKind(res.Stderr), map[string]interface{}{"last_case": res.LastCase, "stderr_tail": lastLines(res.Stderr, 60)})
		}
	}
	run.Floor("loss_cases", 200)
	run.Floor("schedules_executed", 100)
	return run.Finish()
}

type fullValue struct {
	Value []byte
	Flags uint32
}

func memberOf(set []fullValue, v wire.Val) bool {
	for _, f := range set {
		if f.Flags == v.Flags && bytes.Equal(f.Value, v.Data) {
			return true
		}
	}
	return false
}

// tornKind describes how a returned value fails to be one written in full.
func tornKind(set []fullValue, v wire.Val) string {
	for _, f := range set {
		if bytes.Equal(f.Value, v.Data) {
			return "value of one write with another write's flags"
		}
	}
	for _, f := range set {
		if len(f.Value) == len(v.Data) {
			n := 0
			for n < len(v.Data) && v.Data[n] == f.Value[n] {
				n++
			}
			if n > 0 && n < len(v.Data) {
				zero := true
				for _, b := range v.Data[n:] {
					if b != 0 {
						zero = false
						break
					}
				}
				if zero {
					return "prefix of a written value followed by zero bytes"
				}
				return "bytes of a written value patched with other bytes"
			}
		}
	}
	return "bytes that no single set wrote together"
}

func childC05(args []string) int {
	run, finish := childRun("C05", "fault_enumeration")
	c05Loss(run)
	c05Interleave(run)
	c05Tokens(run)
	return finish()
}

// c05Tokens watches the write identities (the 16 bytes every chunk of one set starts with) of
// thousands of consecutive sets. Two sets carrying the same identity are indistinguishable to a
// reader; if that happens, the distance between them is used to construct the interleaving of
// two sets (with that many unrelated sets in between) whose read returns a patched value.
func c05Tokens(run *evid.Run) {
	announceCase("token sequence")
	st := fakemc.NewStore("L1")
	h := chunked.NewHandler(st.Pipe())
	defer h.Close()
	n := run.Pick(3000, 40000)
	seen := map[string]int{}
	dupI, dupJ := -1, -1
	for i := 0; i < n; i++ {
		st.ResetLog()
		handlerExec(h, wire.Cmd{Op: "set", Key: fmt.Sprintf("tok%d", i%13), Value: []byte("0123456789")}, 0)
		for _, rq := range st.Log() {
			if rq.Op == fakemc.OpSet && strings.HasSuffix(rq.Key, "-0") && len(rq.ValHead) >= 16 {
				tok := string(rq.ValHead[:16])
				if j, ok := seen[tok]; ok && dupI < 0 {
					dupI, dupJ = j, i
				}
				seen[tok] = i
			}
		}
		if i%1000 == 999 {
			st.EvictAll()
		}
	}
	run.Eval(1)
	run.Count("write_identities_observed", int64(len(seen)))
	run.Distinct("tokens|sequence")
	if dupI < 0 {
		return
	}
	d := dupJ - dupI
	w := map[string]interface{}{"set_index_a": dupI, "set_index_b": dupJ, "distance": d}
	// construct the torn read
	prog := c05Program{NA: 2, NB: 2, Pre: -1, Fillers: d - 1}
	ex := sched.NewDFS(-1, 4000)
	for {
		ch := ex.Next()
		if ch == nil {
			break
		}
		bad, witness, err := c05RunSchedule(prog, ch)
		ch.Done()
		run.Count("schedules_executed", 1)
		if err == nil && bad != "" {
			witness["schedule"] = ch.Trace
			witness["program"] = prog
			witness["identical_write_identities"] = w
			run.Violation("chunked|interleave|two sets "+fmt.Sprint(d)+" sets apart carry the same write identity|"+bad, witness)
			return
		}
	}
	run.Violation("chunked|interleave|two sets of one process carry the same write identity (their chunks cannot be told apart); no torn read constructed", w)
}

func c05Loss(run *evid.Run) {
	maxN := run.Pick(4, 6)
	keyLens := []int{3}
	if run.Thorough() {
		keyLens = []int{1, 3, 40}
	}
	id := uint32(1)
	for _, kl := range keyLens {
		key := strings.Repeat("q", kl)
		p := chunkPayload(kl)
		for n := 0; n <= maxN; n++ {
			var lens []int
			if n == 0 {
				lens = []int{0}
			} else {
				lens = []int{n * p, n*p - 1, (n-1)*p + 1}
			}
			for _, vl := range lens {
				for _, shape := range []string{"fresh", "after-longer", "after-shorter"} {
					if shape == "after-shorter" && n == 0 {
						continue
					}
					nent := n + 1
					for mask := 0; mask < 1<<uint(nent); mask++ {
						for _, cmd := range []string{"get", "gat", "append", "prepend"} {
							if (cmd == "append" || cmd == "prepend") && (n == 0 || shape == "after-shorter") {
								continue
							}
							st := fakemc.NewStore("L1")
							h := chunked.NewHandler(st.Pipe())
							var full []fullValue
							prevLen := -1
							switch shape {
							case "after-longer":
								prevLen = vl + 2*p + 5
							case "after-shorter":
								prevLen = vl - p/2
								if prevLen < 0 {
									prevLen = 0
								}
							}
							if prevLen >= 0 {
								pv := makeValue(id, prevLen)
								id++
								pf := uint32(0x0F0F0000) | id
								handlerExec(h, wire.Cmd{Op: "set", Key: key, Value: pv, Flags: pf}, 0)
								full = append(full, fullValue{pv, pf})
							}
							val := makeValue(id, vl)
							id++
							flags := uint32(0xA0000000) | id
							r := handlerExec(h, wire.Cmd{Op: "set", Key: key, Value: val, Flags: flags}, 0)
							full = append(full, fullValue{val, flags})
							var lost []string
							if mask&1 != 0 {
								lost = append(lost, key+"-meta")
							}
							for i := 0; i < n; i++ {
								if mask&(1<<uint(i+1)) != 0 {
									lost = append(lost, fmt.Sprintf("%s-%d", key, i))
								}
							}
							st.Evict(lost...)
							desc := fmt.Sprintf("loss|%s|n=%d|%s|mask=%b|%s", shape, n, lenClassExact(kl, vl), mask, cmd)
							announceCase(desc)
							var obs wire.Result
							if cmd == "append" || cmd == "prepend" {
								// read-modify-write over a damaged key: whatever it answers, the key
								// must afterwards read as a miss or as a complete value extended once
								extra := makeValue(id, 9)
								id++
								handlerExec(h, wire.Cmd{Op: cmd, Key: key, Value: extra}, 0)
								for _, fv := range append([]fullValue(nil), full...) {
									if cmd == "append" {
										full = append(full, fullValue{append(append([]byte(nil), fv.Value...), extra...), fv.Flags})
									} else {
										full = append(full, fullValue{append(append([]byte(nil), extra...), fv.Value...), fv.Flags})
									}
								}
								obs = handlerExec(h, wire.Cmd{Op: "get", Keys: []string{key}, Opaque: 5}, 0)
							} else if cmd == "get" {
								obs = handlerExec(h, wire.Cmd{Op: "get", Keys: []string{key}, Opaque: 5}, 0)
							} else {
								obs = handlerExec(h, wire.Cmd{Op: "gat", Key: key, TTL: 500, Opaque: 5}, 0)
							}
							// after the read: the key must behave like any other key of an unchunked map
							// (absent if anything was lost): delete, add, read back
							var after string
							if cmd == "get" {
								wantDel := "notfound"
								if mask == 0 {
									wantDel = "ok"
								}
								nv := makeValue(id, 5+n)
								id++
								d := handlerExec(h, wire.Cmd{Op: "delete", Key: key}, 0)
								a := handlerExec(h, wire.Cmd{Op: "add", Key: key, Value: nv, Flags: 77}, 0)
								g := handlerExec(h, wire.Cmd{Op: "get", Keys: []string{key}, Opaque: 9}, 0)
								switch {
								case d.Class != wantDel:
									after = "delete after the loss answers " + classKind(d.Class) + " where the map says " + wantDel
								case a.Class != "ok":
									after = "add after delete is refused: an entry of the deleted key survives"
								case len(g.Values) != 1 || !bytes.Equal(g.Values[0].Data, nv) || g.Values[0].Flags != 77:
									after = "value added after delete does not read back"
								}
							}
							h.Close()
							run.Eval(1)
							run.Count("loss_cases", 1)
							run.Distinct(desc + fmt.Sprint(kl))
							if n == 3 && mask == 4 && shape == "fresh" && cmd == "get" && vl == n*p {
								run.Sample(map[string]interface{}{"kind": "loss", "chunks": n, "value_len": vl, "lost": lost, "command": cmd, "result_class": obs.Class, "values_returned": len(obs.Values)})
							}
							if r.Class != "ok" {
								run.Inconclusive("set failed in loss case " + desc)
								continue
							}
							bad := ""
							switch {
							case strings.HasPrefix(obs.Class, "panic:"):
								bad = "handler panicked"
							case len(obs.Anomalies) > 0:
								bad = "anomaly: " + canonAnomaly(obs.Anomalies[0])
							case strings.HasPrefix(obs.Class, "err:"):
								bad = "read failed with an error although the backend answered every request"
							case len(obs.Values) == 1:
								run.Count("loss_reads_hit", 1)
								if !memberOf(full, obs.Values[0]) {
									bad = tornKind(full, obs.Values[0])
								} else if mask != 0 && bytes.Equal(obs.Values[0].Data, val) && n > 0 {
									bad = "" // cannot happen unless nothing relevant was lost; kept for clarity
								}
							default:
								run.Count("loss_reads_miss", 1)
							}
							if bad == "" && after != "" {
								bad = after
							}
							if bad != "" {
								which := lossClass(mask, n)
								run.Violation(fmt.Sprintf("chunked|loss|%s|%s|%s|%s", shape, which, cmd, bad), map[string]interface{}{
									"key": key, "chunks": n, "value_len": vl, "shape": shape, "lost_entries": lost, "command": cmd,
									"returned_len": lenOfFirst(obs), "returned_head": headOfFirst(obs), "expected_full_values": len(full),
								})
							}
						}
					}
				}
			}
		}
	}
}

func lossClass(mask, n int) string {
	if mask == 0 {
		return "nothing lost"
	}
	if mask&1 != 0 {
		return "metadata lost"
	}
	last := mask&(1<<uint(n)) != 0
	others := mask&^(1<<uint(n))&^1 != 0
	switch {
	case last && !others:
		return "last chunk lost"
	case !last && others:
		return "inner chunk lost"
	}
	return "several chunks lost"
}

func lenOfFirst(r wire.Result) int {
	if len(r.Values) > 0 {
		return len(r.Values[0].Data)
	}
	return -1
}

func headOfFirst(r wire.Result) string {
	if len(r.Values) > 0 {
		d := r.Values[0].Data
		if len(d) > 32 {
			d = d[:32]
		}
		return fmt.Sprintf("%q", d)
	}
	return ""
}

// c05Program is two writers and a reader on one key.
type c05Program struct {
	NA, NB   int    // chunks of the two sets (NB < 0: no second writer)
	Pre      int    // chunks of a pre-existing value (-1 = none)
	ReaderGA bool   // reader uses GAT instead of Get
	AOp      string // "" = set; "append" / "prepend": writer A extends the pre-existing value by NA bytes-class
	// PreSameConn: the pre-existing value was written through writer A's own connection (a
	// client overwriting its own key) instead of a connection that is gone
	PreSameConn bool `json:",omitempty"`
	// Fillers: this many unrelated sets (another connection, other keys) happen between writer A
	// taking up its work and writer B starting
	Fillers int `json:",omitempty"`
}

func c05Interleave(run *evid.Run) {
	type plan struct {
		prog    c05Program
		bound   int
		maxRuns int
		random  bool
	}
	var plans []plan
	if run.Thorough() {
		for _, na := range []int{1, 2} {
			for _, nb := range []int{1, 2} {
				for _, pre := range []int{-1, 1, 3} {
					plans = append(plans, plan{c05Program{NA: na, NB: nb, Pre: pre, ReaderGA: false}, -1, 0, false})
				}
			}
		}
		plans = append(plans, plan{c05Program{NA: 2, NB: 1, Pre: 2, ReaderGA: true}, -1, 0, false})
		plans = append(plans, plan{c05Program{NA: 3, NB: 3, Pre: -1, ReaderGA: false}, 3, 30000, false})
		plans = append(plans, plan{c05Program{NA: 3, NB: 2, Pre: 3, ReaderGA: true}, 3, 30000, false})
		plans = append(plans, plan{c05Program{NA: 3, NB: 3, Pre: 2, ReaderGA: false}, -1, 20000, true})
		plans = append(plans, plan{c05Program{NA: 4, NB: 2, Pre: 3, ReaderGA: false}, -1, 10000, true})
	} else {
		plans = append(plans, plan{c05Program{NA: 1, NB: 1, Pre: -1, ReaderGA: false}, -1, 0, false})
		plans = append(plans, plan{c05Program{NA: 2, NB: 1, Pre: -1, ReaderGA: false}, -1, 0, false})
		plans = append(plans, plan{c05Program{NA: 1, NB: 2, Pre: 1, ReaderGA: true}, -1, 0, false})
		plans = append(plans, plan{c05Program{NA: 2, NB: 2, Pre: 3, ReaderGA: false}, 2, 3000, false})
		plans = append(plans, plan{c05Program{NA: 3, NB: 2, Pre: -1, ReaderGA: false}, -1, 1500, true})
	}
	// a writer that appends / prepends (read + re-insert) next to a reader, with and without a
	// second writer: the re-inserted value is a value "some single set wrote in full" too
	for _, op := range []string{"append", "prepend"} {
		plans = append(plans, plan{c05Program{NA: 0, NB: -1, Pre: 2, AOp: op}, -1, 0, false})
		plans = append(plans, plan{c05Program{NA: 1, NB: -1, Pre: 1, ReaderGA: true, AOp: op}, -1, 0, false})
		if run.Thorough() {
			plans = append(plans, plan{c05Program{NA: 0, NB: 2, Pre: 2, AOp: op}, 3, 20000, false})
			plans = append(plans, plan{c05Program{NA: 1, NB: -1, Pre: 3, AOp: op}, -1, 0, false})
		} else {
			plans = append(plans, plan{c05Program{NA: 0, NB: 1, Pre: 2, AOp: op}, 2, 1500, false})
		}
	}
	// a client overwriting (or extending) the value it wrote itself through the same connection
	plans = append(plans, plan{c05Program{NA: 2, NB: -1, Pre: 2, PreSameConn: true}, -1, 0, false})
	plans = append(plans, plan{c05Program{NA: 1, NB: -1, Pre: 3, PreSameConn: true, ReaderGA: true}, -1, 0, false})
	plans = append(plans, plan{c05Program{NA: 0, NB: -1, Pre: 2, PreSameConn: true, AOp: "append"}, -1, 0, false})
	if run.Thorough() {
		plans = append(plans, plan{c05Program{NA: 3, NB: -1, Pre: 3, PreSameConn: true}, -1, 0, false})
		plans = append(plans, plan{c05Program{NA: 2, NB: 1, Pre: 3, PreSameConn: true}, 3, 20000, false})
	}
	allExhaustive := true
	for pi, pl := range plans {
		var ex *sched.Explorer
		if pl.random {
			ex = sched.NewRandom(run.Seed()*101+int64(pi), pl.maxRuns)
		} else {
			ex = sched.NewDFS(pl.bound, pl.maxRuns)
		}
		name := fmt.Sprintf("A=%s%d,B=%d,pre=%d,gat=%v", pl.prog.AOp, pl.prog.NA, pl.prog.NB, pl.prog.Pre, pl.prog.ReaderGA)
		if pl.prog.PreSameConn {
			name += ",pre-by-A"
		}
		for {
			ch := ex.Next()
			if ch == nil {
				break
			}
			announceCase(fmt.Sprintf("interleave %s run %d", name, ex.Runs))
			bad, witness, err := c05RunSchedule(pl.prog, ch)
			ch.Done()
			run.Eval(1)
			run.Count("schedules_executed", 1)
			if err != nil {
				run.Inconclusive(fmt.Sprintf("interleave %s: %v", name, err))
				continue
			}
			if bad != "" {
				witness["schedule"] = ch.Trace
				witness["program"] = pl.prog
				run.Violation(fmt.Sprintf("chunked|interleave|%s", bad), witness)
			}
			if ex.Runs == 2 && pi == 1 {
				run.Sample(map[string]interface{}{"kind": "interleaving", "program": name, "schedule": ch.Trace})
			}
		}
		if !(ex.Exhausted && pl.bound < 0 && !pl.random) {
			allExhaustive = false
		}
		run.Count("distinct_schedules", int64(ex.Distinct()))
		run.Extra("interleave_"+name, map[string]interface{}{"runs": ex.Runs, "distinct": ex.Distinct(), "dfs_complete": ex.Exhausted, "preemption_bound": pl.bound, "random": pl.random})
		for k := range ex.Prints {
			run.Distinct(fmt.Sprintf("sched|%s|%x", name, k))
		}
	}
	run.Extra("interleaving_all_plans_exhaustive", allExhaustive)
}

// c05RunSchedule executes one schedule of the program; returns what was wrong ("" = fine).
func c05RunSchedule(prog c05Program, ch *sched.Chooser) (string, map[string]interface{}, error) {
	const key = "kk"
	p := chunkPayload(len(key))
	st := fakemc.NewStore("L1")
	var full []fullValue
	mk := func(id uint32, n int) fullValue {
		l := n*p - 3
		if n == 0 {
			l = 0
		}
		return fullValue{makeValue(id, l), 0xC0000000 | id}
	}
	if prog.Pre >= 0 {
		v := mk(9, prog.Pre)
		if !prog.PreSameConn {
			h0 := chunked.NewHandler(st.Pipe())
			handlerExec(h0, wire.Cmd{Op: "set", Key: key, Value: v.Value, Flags: v.Flags}, 0)
			h0.Close()
		}
		full = append(full, v)
	}
	va, vb := mk(1, prog.NA), mk(2, maxInt(prog.NB, 0))
	var extra []byte
	if prog.AOp != "" {
		// NA = 0: a few bytes (same chunk count); NA = 1: enough to add a chunk
		extra = makeValue(7, 5+prog.NA*p)
		pre := full[len(full)-1]
		if prog.AOp == "append" {
			va = fullValue{append(append([]byte(nil), pre.Value...), extra...), pre.Flags}
		} else {
			va = fullValue{append(append([]byte(nil), extra...), pre.Value...), pre.Flags}
		}
	}
	full = append(full, va)
	if prog.NB >= 0 {
		full = append(full, vb)
		if prog.AOp == "append" {
			// the append may have read the other writer's complete value
			full = append(full, fullValue{append(append([]byte(nil), vb.Value...), extra...), vb.Flags})
		} else if prog.AOp == "prepend" {
			full = append(full, fullValue{append(append([]byte(nil), extra...), vb.Value...), vb.Flags})
		}
	}

	// three connections, ids learned one by one
	connThread := map[int]int{}
	var hs [3]chunked.Handler
	for t := 0; t < 3; t++ {
		before := st.OpenConnIDs()
		hs[t] = chunked.NewHandler(st.Pipe())
		deadline := time.Now().Add(5 * time.Second)
		for {
			ids := st.OpenConnIDs()
			seen := map[int]bool{}
			for _, id := range before {
				seen[id] = true
			}
			found := false
			for _, id := range ids {
				if !seen[id] {
					connThread[id] = t
					found = true
				}
			}
			if found {
				break
			}
			if time.Now().After(deadline) {
				return "", nil, fmt.Errorf("fake backend did not register the connection")
			}
			time.Sleep(50 * time.Microsecond)
		}
	}
	if prog.Pre >= 0 && prog.PreSameConn {
		handlerExec(hs[0], wire.Cmd{Op: "set", Key: key, Value: full[0].Value, Flags: full[0].Flags}, 0)
	}
	nthreads := 3
	ctl := sched.NewController(nthreads, ch)
	fillersDone := make(chan struct{})
	var fillOnce sync.Once
	var fillerH chunked.Handler
	if prog.Fillers > 0 {
		fillerH = chunked.NewHandler(st.Pipe()) // its connection is not scheduled
	} else {
		close(fillersDone)
	}
	st.SetGate(func(conn int, r *fakemc.Req) {
		t, ok := connThread[conn]
		if !ok {
			return
		}
		if t == 0 && prog.Fillers > 0 {
			// writer A has taken up its set (its first backend request is here): the unrelated
			// sets happen now, writer B starts after them
			fillOnce.Do(func() {
				for i := 0; i < prog.Fillers; i++ {
					handlerExec(fillerH, wire.Cmd{Op: "set", Key: fmt.Sprintf("fill%d", i%7), Value: []byte("f")}, 0)
				}
				close(fillersDone)
			})
		}
		ctl.Yield(t, fmt.Sprintf("op%02x %s", r.Op, r.Key), nil)
	})
	var wg sync.WaitGroup
	var readRes wire.Result
	var setRes [2]wire.Result
	wg.Add(3)
	go func() {
		defer wg.Done()
		if prog.AOp != "" {
			setRes[0] = handlerExec(hs[0], wire.Cmd{Op: prog.AOp, Key: key, Value: extra}, 0)
		} else {
			setRes[0] = handlerExec(hs[0], wire.Cmd{Op: "set", Key: key, Value: va.Value, Flags: va.Flags}, 0)
		}
		ctl.Done(0)
	}()
	go func() {
		defer wg.Done()
		if prog.NB >= 0 {
			<-fillersDone
			setRes[1] = handlerExec(hs[1], wire.Cmd{Op: "set", Key: key, Value: vb.Value, Flags: vb.Flags}, 0)
		}
		ctl.Done(1)
	}()
	go func() {
		defer wg.Done()
		if prog.ReaderGA {
			readRes = handlerExec(hs[2], wire.Cmd{Op: "gat", Key: key, TTL: 900, Opaque: 3}, 0)
		} else {
			readRes = handlerExec(hs[2], wire.Cmd{Op: "get", Keys: []string{key}, Opaque: 3}, 0)
		}
		ctl.Done(2)
	}()
	err := ctl.Run(30 * time.Second)
	if err != nil {
		ctl.ReleaseAll()
		st.SetGate(nil)
		st.CutAll()
		wg.Wait()
		return "", nil, err
	}
	wg.Wait()
	st.SetGate(nil)
	// a final, quiescent read through a fresh handler is judged as well
	hf := chunked.NewHandler(st.Pipe())
	final := handlerExec(hf, wire.Cmd{Op: "get", Keys: []string{key}, Opaque: 4}, 0)
	hf.Close()
	for _, h := range hs {
		h.Close()
	}
	if prog.Fillers > 0 {
		fillerH.Close()
	}
	judge := func(name string, r wire.Result) string {
		switch {
		case strings.HasPrefix(r.Class, "panic:"):
			return name + ": handler panicked"
		case strings.HasPrefix(r.Class, "err:"):
			return name + ": read failed with an error"
		case len(r.Values) == 1 && !memberOf(full, r.Values[0]):
			return name + ": " + tornKind(full, r.Values[0])
		}
		return ""
	}
	w := map[string]interface{}{
		"set_a": setRes[0].Class, "set_b": setRes[1].Class, "read_class": readRes.Class, "read_len": lenOfFirst(readRes), "read_head": headOfFirst(readRes),
		"final_class": final.Class, "final_len": lenOfFirst(final), "backend_keys": sortedStoreKeys(st),
	}
	if b := judge("concurrent read", readRes); b != "" {
		return b, w, nil
	}
	if b := judge("read after both sets finished", final); b != "" {
		return b, w, nil
	}
	return "", w, nil
}

func sortedStoreKeys(st *fakemc.Store) []string {
	ks := st.Keys()
	sort.Strings(ks)
	return ks
}
