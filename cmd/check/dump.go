package main

import "strings"

// goroutineBlocks splits a Go goroutine dump (SIGQUIT output or pprof debug=2) into blocks.
func goroutineBlocks(dump string) []string {
	var out []string
	for _, b := range strings.Split(dump, "\n\n") {
		b = strings.TrimSpace(b)
		if strings.HasPrefix(b, "goroutine ") {
			out = append(out, b)
		}
	}
	return out
}

// filterDump keeps the goroutines that have a frame in rend code.
func filterDump(dump string) string {
	var keep []string
	for _, b := range goroutineBlocks(dump) {
		if strings.Contains(b, "github.com/netflix/rend/") {
			keep = append(keep, b)
		}
	}
	return strings.Join(keep, "\n\n")
}

// blocksWith returns the goroutine blocks containing all of the given substrings.
func blocksWith(dump string, subs ...string) []string {
	var out []string
outer:
	for _, b := range goroutineBlocks(dump) {
		for _, s := range subs {
			if !strings.Contains(b, s) {
				continue outer
			}
		}
		out = append(out, b)
	}
	return out
}
