package main

import (
	"errors"
	"fmt"
	"io"
	"math/rand"
	"strings"
	"time"

	"verif/evid"
	"verif/harness"
	"verif/model"
	"verif/wire"
)

func init() { checks["C08"] = checkC08 }

// textErrorForms are requests that must be answered by exactly one error line and leave the
// connection in sync (none of them is followed by a data block).
var textErrorForms = []string{
	"bogus\r\n", "gets ka\r\n", "incr ka 1\r\n", "flush_all\r\n",
	"set ka x 0 1\r\n", "set ka 0 x 1\r\n", "set ka 0 0 x\r\n", "set ka 0 0\r\n", "add ka 0 0 -1\r\n",
	"replace ka 4294967296 0 1\r\n", "touch ka x\r\n", "touch ka\r\n", "get\r\n", "delete\r\n", "delete ka kb\r\n",
	"append ka 0 0 99999999999\r\n", "version now\r\n", "noop x\r\n",
	// an empty or blank request line is a request too: one error line, nothing lost behind it
	"\r\n", " \r\n", "   \r\n", "\r\n",
}

// c08Pipeline builds a pipeline: data commands mixed with error forms and admin commands.
func c08Pipeline(g *gen, o genOpts, gete bool) []wire.Cmd {
	cmds := g.sequence(o)
	var out []wire.Cmd
	for _, c := range cmds {
		out = append(out, c)
		switch g.rng.Intn(8) {
		case 0:
			if !o.Binary {
				out = append(out, wire.Cmd{Op: "raw", Raw: []byte(g.pick(textErrorForms)), Port: c.Port})
			}
		case 1:
			g.opaque += 16
			out = append(out, wire.Cmd{Op: g.pick([]string{"noop", "version", "stats"}), Opaque: g.opaque, Port: c.Port})
		case 2:
			// gete: supported by the L1-only orchestrator; the L1/L2 orchestrators refuse it with an
			// error reply (whose shape is not judged: the request is not a supported one there),
			// but whatever follows on the connection must still be answered correctly
			if o.Binary {
				g.opaque += 16
				k := 1 + g.rng.Intn(3)
				gc := wire.Cmd{Op: "gete", Opaque: g.opaque, NoopEnd: g.rng.Intn(2) == 0, Port: c.Port}
				for i := 0; i < k; i++ {
					gc.Keys = append(gc.Keys, g.pick(o.Keys))
				}
				g.opaque += uint32(k)
				out = append(out, gc)
			}
		}
	}
	return out
}

// attributeBinary splits the frames of a whole connection among the requests by opaque.
func attributeBinary(cmds []wire.Cmd, frames []wire.Frame) (per [][]wire.Frame, stray []wire.Frame) {
	per = make([][]wire.Frame, len(cmds))
	type rng struct {
		lo, hi uint32
		idx    int
	}
	var rs []rng
	for i, c := range cmds {
		n := uint32(1)
		if c.IsGet() {
			n = uint32(len(c.Keys)) + 1
		}
		rs = append(rs, rng{c.Opaque, c.Opaque + n, i})
	}
	for _, f := range frames {
		found := false
		for _, r := range rs {
			if f.Opaque >= r.lo && f.Opaque < r.hi {
				per[r.idx] = append(per[r.idx], f)
				found = true
				break
			}
		}
		if !found {
			stray = append(stray, f)
		}
	}
	return
}

// attributeText splits the items of a whole connection among the requests by order.
func attributeText(cmds []wire.Cmd, items []wire.Item) (per [][]wire.Item, leftover []wire.Item) {
	per = make([][]wire.Item, len(cmds))
	pos := 0
	for i, c := range cmds {
		switch c.Op {
		case "get":
			for pos < len(items) {
				it := items[pos]
				pos++
				per[i] = append(per[i], it)
				if !it.IsValue {
					break // END or an error line terminates the reply
				}
			}
		case "stats":
			for pos < len(items) {
				it := items[pos]
				pos++
				per[i] = append(per[i], it)
				if !it.IsValue && it.Line == "END" {
					break
				}
			}
		default:
			if pos < len(items) {
				per[i] = append(per[i], items[pos])
				pos++
			}
		}
	}
	return per, items[pos:]
}

// expectedRaw is the expected reply shape of a text error form: one error line.
func rawTextDiff(items []wire.Item) string {
	if len(items) != 1 {
		return fmt.Sprintf("error form answered by %s replies", countWord(len(items)))
	}
	it := items[0]
	if it.IsValue || !(strings.HasPrefix(it.Line, "CLIENT_ERROR") || strings.HasPrefix(it.Line, "ERROR") || strings.HasPrefix(it.Line, "SERVER_ERROR")) {
		return "error form not answered by an error line"
	}
	if it.BareLF {
		return "error line terminated by bare LF"
	}
	return ""
}

// geteSupported: only the L1-only orchestrator over a memcached-style backend answers gete.
func geteSupported(p *harness.Proxy) bool { return !p.Cfg.L2 && p.Cfg.L1Kind == "std" }

func countWord(n int) string {
	switch {
	case n == 0:
		return "no"
	case n == 1:
		return "one"
	}
	return "several"
}

type c08Outcome struct {
	FailIdx int
	Diff    string
	Detail  interface{}
	Err     error
}

// runPipeline writes all requests (plus a sentinel and quit) before reading, decodes the entire
// reply stream strictly and attributes every frame / item.
func runPipeline(p *harness.Proxy, binary bool, cmds []wire.Cmd, closedLoop bool) c08Outcome {
	p.ResetStores()
	port := 0
	if len(cmds) > 0 {
		port = cmds[0].Port
	}
	cl, err := p.Dial(port, binary)
	if err != nil {
		return c08Outcome{Err: err}
	}
	defer cl.Close()
	m := model.New(p.L1.Now)
	sentinel := wire.Cmd{Op: "noop", Opaque: 0xEEEE0001}
	if !binary {
		sentinel = wire.Cmd{Op: "version"}
	}
	quit := wire.Cmd{Op: "quit", Opaque: 0xEEEE0002}
	all := append(append([]wire.Cmd(nil), cmds...), sentinel, quit)
	werr := make(chan error, 1)
	go func() {
		var buf []byte
		for _, c := range all {
			buf = append(buf, cl.Encode(c)...)
		}
		if closedLoop {
			// one write per request, still without waiting for replies
			var err error
			for _, c := range all {
				if err = cl.Send(cl.Encode(c)); err != nil {
					break
				}
			}
			werr <- err
			return
		}
		werr <- cl.Send(buf)
	}()
	var per2 [][]wire.Frame
	var per1 [][]wire.Item
	var strayN, leftN int
	var strayDesc string
	if binary {
		frames, err := cl.ReadAllFrames()
		if err != nil {
			return c08Outcome{Err: err, Detail: fmt.Sprintf("%d frames decoded before the error", len(frames))}
		}
		var stray []wire.Frame
		per2, stray = attributeBinary(all, frames)
		strayN = len(stray)
		if strayN > 0 {
			strayDesc = stray[0].String()
		}
		// order: the sentinel's and quit's replies must be the last two frames
		if len(frames) >= 2 {
			if frames[len(frames)-1].Opaque != quit.Opaque || frames[len(frames)-2].Opaque != sentinel.Opaque {
				if strayN == 0 && len(per2[len(all)-1]) == 1 && len(per2[len(all)-2]) == 1 {
					return c08Outcome{FailIdx: len(cmds), Diff: "reply frames after the sentinel's reply"}
				}
			}
		}
	} else {
		items, err := cl.ReadAllItems()
		if err != nil {
			return c08Outcome{Err: err, Detail: fmt.Sprintf("%d items decoded before the error", len(items))}
		}
		var left []wire.Item
		per1, left = attributeText(all, items)
		leftN = len(left)
		if leftN > 0 {
			strayDesc = left[0].String()
		}
	}
	<-werr
	unsupported := 0
	for i, c := range all {
		var obs wire.Result
		if binary {
			obs = wire.InterpretBinary(c, per2[i])
		} else {
			obs = wire.InterpretText(c, per1[i])
		}
		var diff string
		if c.Op == "gete" && !geteSupported(p) {
			unsupported++
			continue
		}
		if c.Op == "raw" {
			diff = rawTextDiff(per1[i])
		} else {
			exp := expected(m, c, binary)
			diff = diffResult(c, exp, obs, binary)
			if diff == "" && c.Op == "version" && !strings.Contains(obs.Info, "Rend") && !strings.HasPrefix(obs.Info, "VERSION") {
				diff = "version reply without a version string"
			}
		}
		if diff != "" {
			return c08Outcome{FailIdx: i, Diff: diff, Detail: map[string]interface{}{"request": c.Short(), "observed": brief(obs)}}
		}
	}
	if strayN > unsupported {
		return c08Outcome{FailIdx: len(cmds), Diff: "reply frame whose opaque belongs to no request", Detail: strayDesc}
	}
	if leftN > 0 {
		return c08Outcome{FailIdx: len(cmds), Diff: "surplus reply lines after the last request's reply", Detail: strayDesc}
	}
	return c08Outcome{FailIdx: -1}
}

// runNoSentinel sends single requests and waits for exactly the predicted reply without sending
// anything else: a reply that is only delivered once further input arrives is a violation.
func runNoSentinel(p *harness.Proxy, binary bool, cmds []wire.Cmd) c08Outcome {
	p.ResetStores()
	erng := rand.New(rand.NewSource(int64(len(cmds))*7919 + int64(hashStr(kindSeq(cmds)))))
	port := 0
	if len(cmds) > 0 {
		port = cmds[0].Port
	}
	cl, err := p.Dial(port, binary)
	if err != nil {
		return c08Outcome{Err: err}
	}
	defer cl.Close()
	cl.Watchdog = 8 * time.Second
	// A trailing quiet store has no reply to wait for: before the connection is dropped (and the
	// next case resets the backends) a sentinel makes sure the server has finished with it.
	// Without this a loaded machine let the last quiet set of one case land in the next case's
	// freshly reset stores ("more values than the model", seen once in a thorough sweep).
	defer func() {
		drain := wire.Cmd{Op: "noop", Opaque: 0xEEEE0004}
		if !binary {
			drain = wire.Cmd{Op: "version"}
		}
		if cl.Send(cl.Encode(drain)) != nil {
			return
		}
		cl.Conn.SetReadDeadline(time.Now().Add(10 * time.Second))
		for {
			if binary {
				f, err := wire.ReadFrame(cl.R)
				if err != nil || f.Opaque == 0xEEEE0004 {
					return
				}
			} else {
				it, err := wire.ReadItem(cl.R)
				if err != nil || (!it.IsValue && strings.HasPrefix(it.Line, "VERSION")) {
					return
				}
			}
		}
	}()
	m := model.New(p.L1.Now)
	for i, c := range cmds {
		// keys that live only in L2 make the L1/L2 orchestrators answer out of key order
		if p.Cfg.L2 && p.Cfg.L1Kind == "std" {
			if erng.Intn(3) == 0 {
				ks := c08Keys("std")
				p.L1.Evict(ks[erng.Intn(len(ks))])
			}
			if c.IsGet() && len(c.Keys) > 1 {
				for _, k := range c.Keys[:len(c.Keys)-1] {
					if k != c.Keys[len(c.Keys)-1] && erng.Intn(2) == 0 {
						p.L1.Evict(k)
					}
				}
			}
		}
		exp := expected(m, c, binary)
		if err := cl.Send(cl.Encode(c)); err != nil {
			return c08Outcome{Err: err}
		}
		var obs wire.Result
		var rerr error
		if binary {
			want := 1
			if c.QuietSet && exp.Class == model.OK {
				want = 0
			}
			if c.IsGet() {
				want = len(exp.Values) + exp.Misses
				if c.NoopEnd {
					want++
				}
			}
			var frames []wire.Frame
			for len(frames) < want {
				cl.Conn.SetReadDeadline(time.Now().Add(cl.Watchdog))
				f, err := wire.ReadFrame(cl.R)
				if err != nil {
					rerr = err
					break
				}
				frames = append(frames, f)
			}
			obs = wire.InterpretBinary(c, frames)
		} else {
			var items []wire.Item
			for {
				cl.Conn.SetReadDeadline(time.Now().Add(cl.Watchdog))
				it, err := wire.ReadItem(cl.R)
				if err != nil {
					rerr = err
					break
				}
				items = append(items, it)
				if !(c.Op == "get" && it.IsValue) {
					break
				}
			}
			obs = wire.InterpretText(c, items)
		}
		if rerr != nil {
			var ne interface{ Timeout() bool }
			if errors.As(rerr, &ne) && ne.Timeout() {
				// nothing for 8 s; stay silent for 20 more seconds, then poke
				cl.Conn.SetReadDeadline(time.Now().Add(20 * time.Second))
				if _, err := cl.R.Peek(1); err == nil {
					return c08Outcome{FailIdx: i, Err: fmt.Errorf("reply arrived only after %v (inconclusive)", cl.Watchdog)}
				}
				if !p.Alive() {
					return c08Outcome{FailIdx: i, Diff: "server process exited"}
				}
				cl.Send(cl.Encode(wire.Cmd{Op: "noop", Opaque: 0xEEEE0003}))
				cl.Conn.SetReadDeadline(time.Now().Add(10 * time.Second))
				if _, err := cl.R.Peek(1); err == nil {
					return c08Outcome{FailIdx: i, Diff: "reply withheld until the next request arrived", Detail: c.Short()}
				}
				return c08Outcome{FailIdx: i, Diff: "no reply to a non-quiet request", Detail: c.Short()}
			}
			if rerr == io.EOF {
				return c08Outcome{FailIdx: i, Diff: "connection closed instead of a reply", Detail: c.Short()}
			}
			return c08Outcome{FailIdx: i, Err: rerr}
		}
		if diff := diffResult(c, exp, obs, binary); diff != "" {
			return c08Outcome{FailIdx: i, Diff: diff, Detail: map[string]interface{}{"request": c.Short(), "observed": brief(obs)}}
		}
	}
	// nothing may be pending now
	cl.Conn.SetReadDeadline(time.Now().Add(50 * time.Millisecond))
	if b, err := cl.R.Peek(1); err == nil {
		return c08Outcome{FailIdx: len(cmds), Diff: "unsolicited bytes after the last reply", Detail: fmt.Sprintf("0x%02x", b[0])}
	}
	return c08Outcome{FailIdx: -1}
}

func checkC08(tier, replay string) int {
	run := evid.NewRun("C08", tier, "exploration")
	run.Rule("pipelines of 10-60 requests (all written before any reply is read; also one write per request) mixing successes and failing forms " +
		"(add on existing, replace/append/prepend/delete/touch on missing, unknown text commands, bad numeric fields, multi-key and quiet gets, gat, gete on L1-only, noop/version/stats), " +
		"closed by a sentinel and quit; the strict decoders consume the whole reply stream of the connection and attribute every frame (opaque) / line (order); " +
		"plus single requests whose reply is awaited without sending anything else. " +
		"distinct_nontrivial = distinct (configuration, protocol, mode, op-kind sequence) containing at least one failing or multi-key request")
	npipe := run.Pick(21, 240)
	cfgs := c01Configs(run.Thorough())
	proxyPool(run, cfgs, 12, func(p *harness.Proxy, restart func() *harness.Proxy) {
		cfg := p.Cfg
		for _, binary := range []bool{false, true} {
			for _, pm := range portModes(cfg.L2) {
				if pm.Name == "alternating" {
					continue // one connection = one port
				}
				g := newGen(run.Seed()*9000011 + int64(hashStr(cfg.Name()+protoName(binary)+pm.Name)))
				for i := 0; i < npipe; i++ {
					mode := []string{"pipelined", "one-write-per-request", "await-each"}[i%3]
					o := genOpts{Binary: binary, Keys: c08Keys(cfg.L1Kind), MinLen: 10, MaxLen: 60, TTLs: []string{"0", "1000", "abs-future"}, T0: p.L1.T0(),
						AllowGat: true, AllowQuiet: true, AllowMulti: true, Ports: pm.Ports, ValueLens: []int{0, 1, 30, 1100, 5000}}
					var cmds []wire.Cmd
					var out c08Outcome
					if mode == "await-each" {
						o.MaxLen = 25
						o.Ops = []string{"set", "set", "set", "add", "replace", "append", "prepend", "delete", "touch", "get", "get", "mget", "mget", "mget", "mget", "gat", "setq"}
						cmds = g.sequence(o)
						out = runNoSentinel(p, binary, cmds)
					} else {
						cmds = c08Pipeline(g, o, true)
						if !cfg.L2 && cfg.L1Kind != "std" {
							// chunked / batched L1-only: gete is not meaningful (chunked panics by design)
							var kept []wire.Cmd
							for _, c := range cmds {
								if c.Op != "gete" {
									kept = append(kept, c)
								}
							}
							cmds = kept
						}
						out = runPipeline(p, binary, cmds, mode == "one-write-per-request")
					}
					what := fmt.Sprintf("%s|%s|%s|%s", cfg.Name(), protoName(binary), pm.Name, mode)
					run.Eval(1)
					run.Count("requests", int64(len(cmds)))
					run.Distinct(what + "|" + kindSeq(cmds))
					if i < 2 && cfg.Locked && cfg.L2 {
						run.Sample(map[string]interface{}{"config": what, "requests": shortCmds(cmds, 14)})
					}
					if out.Err != nil {
						w := map[string]interface{}{"config": cfg, "requests": cmds, "error": out.Err.Error(), "detail": out.Detail}
						if !p.Alive() {
							w["stderr_tail"] = lastLines(p.Stderr(), 40)
							run.Violation(what+"|server process exited", w)
						} else if errors.Is(out.Err, wire.ErrMalformed) {
							run.Violation(what+"|malformed reply: "+canonAnomaly(out.Err.Error()), w)
						} else if errors.Is(out.Err, wire.ErrWatchdog) {
							w["goroutines"] = lastLines(filterDump(p.GoroutineDumpKill()), 60)
							run.Inconclusive(what + ": reply stream did not end within the watchdog")
						} else {
							run.Inconclusive(what + ": " + out.Err.Error())
						}
						if p = restart(); p == nil {
							return
						}
						continue
					}
					if out.FailIdx >= 0 {
						small := cmds
						if out.FailIdx < len(cmds) {
							small = cmds[:out.FailIdx+1]
						}
						rerun := func(c []wire.Cmd) string {
							if !p.Alive() {
								return ""
							}
							var o c08Outcome
							if mode == "await-each" {
								o = runNoSentinel(p, binary, c)
							} else {
								o = runPipeline(p, binary, c, mode == "one-write-per-request")
							}
							if o.Err != nil {
								return ""
							}
							return o.Diff
						}
						small = shrink(small, out.Diff, rerun, 150)
						run.Violation(fmt.Sprintf("%s|%s|%s", what, kindSeqLens(small), out.Diff), map[string]interface{}{
							"config": cfg, "protocol": protoName(binary), "mode": mode, "requests": small, "detail": out.Detail,
						})
						if !p.Alive() {
							if p = restart(); p == nil {
								return
							}
						}
					}
				}
			}
		}
		if p != nil && p.Alive() {
			c08FirstRequests(run, p)
		}
	})
	run.Floor("requests", 1000)
	return run.Finish()
}

// c08FirstRequests: the very first request of a connection is what the server picks the
// protocol from. Every kind of first request (each binary opcode family incl. gete / quiet
// batches; text lines that fail and do not start with a lower-case letter) must be answered
// like the same request later on the connection, and the connection must stay usable.
func c08FirstRequests(run *evid.Run, p *harness.Proxy) {
	cfgName := p.Cfg.Name()
	p.ResetStores()
	type first struct {
		binary bool
		cmd    wire.Cmd
	}
	var firsts []first
	for _, c := range []wire.Cmd{
		{Op: "get", Keys: []string{"ka"}, Opaque: 0x11},
		{Op: "get", Keys: []string{"ka", "kb"}, Opaque: 0x20, NoopEnd: true},
		{Op: "gat", Key: "ka", TTL: 10, Opaque: 0x30},
		{Op: "touch", Key: "ka", TTL: 10, Opaque: 0x31},
		{Op: "delete", Key: "ka", Opaque: 0x32},
		{Op: "append", Key: "ka", Value: []byte("x"), Opaque: 0x33},
		{Op: "replace", Key: "ka", Value: []byte("x"), Opaque: 0x34},
		{Op: "set", Key: "kfirst", Value: []byte("x"), QuietSet: true, Opaque: 0x35},
		{Op: "noop", Opaque: 0x36}, {Op: "version", Opaque: 0x37},
	} {
		firsts = append(firsts, first{true, c})
	}
	if geteSupported(p) {
		firsts = append(firsts, first{true, wire.Cmd{Op: "gete", Keys: []string{"ka"}, Opaque: 0x40}},
			first{true, wire.Cmd{Op: "gete", Keys: []string{"ka", "kb"}, Opaque: 0x48, NoopEnd: true}})
	}
	for _, raw := range []string{"GET ka\r\n", "VERSION\r\n", "123\r\n", "\r\n", "Set ka 0 0 1\r\n", "[]\r\n", "~\r\n", "@get\r\n"} {
		firsts = append(firsts, first{false, wire.Cmd{Op: "raw", Raw: []byte(raw)}})
	}
	for _, c := range []wire.Cmd{{Op: "get", Keys: []string{"ka"}}, {Op: "delete", Key: "ka"}, {Op: "touch", Key: "ka", TTL: 5}, {Op: "version"}} {
		firsts = append(firsts, first{false, c})
	}
	for _, f := range firsts {
		cl, err := p.Dial(0, f.binary)
		if err != nil {
			run.Violation(cfgName+"|first request|server refuses a new connection", map[string]interface{}{"request": f.cmd.Short()})
			return
		}
		cl.Watchdog = 10 * time.Second
		m := model.New(p.L1.Now)
		run.Eval(1)
		run.Count("first_requests", 1)
		run.Distinct(fmt.Sprintf("first|%s|%v|%s", cfgName, f.binary, f.cmd.Short()))
		bad := ""
		var detail interface{}
		check := func(c wire.Cmd) bool {
			exp := expected(m, c, f.binary)
			obs, err := cl.Do(c)
			switch {
			case err != nil:
				bad, detail = "no well-formed reply: "+canonAnomaly(err.Error()), c.Short()
			case c.Op == "raw":
				info := strings.TrimPrefix(obs.Info, "LINE ")
				switch {
				case obs.Replies != 1:
					bad, detail = fmt.Sprintf("error form answered by %s replies", countWord(obs.Replies)), c.Short()
				case !(strings.Contains(info, "ERROR")):
					bad, detail = "error form not answered by an error line", map[string]interface{}{"request": c.Short(), "reply": obs.Info}
				}
			default:
				if d := diffResult(c, exp, obs, f.binary); d != "" {
					bad, detail = d, map[string]interface{}{"request": c.Short(), "observed": brief(obs)}
				}
			}
			return bad == ""
		}
		if check(f.cmd) {
			// and the connection is usable afterwards
			follow := wire.Cmd{Op: "get", Keys: []string{"kfollow"}, Opaque: 0x77}
			if check(follow) {
				check(wire.Cmd{Op: "version", Opaque: 0x78})
			}
		}
		cl.Close()
		if bad != "" {
			kind := opKind(f.cmd)
			if f.cmd.Op == "raw" {
				kind = "failing text line not starting with a lower-case letter"
			}
			run.Violation(fmt.Sprintf("%s|%s|first request of a connection|%s|%s", cfgName, protoName(f.binary), kind, bad),
				map[string]interface{}{"config": p.Cfg, "first_request": f.cmd.Short(), "detail": detail})
			if !p.Alive() {
				return
			}
		}
	}
}

// c08Keys is the key alphabet of the reply-discipline workloads: outside the chunked shapes two of the
// keys contain '%' (legal in both protocols; a reply line must carry the key verbatim).
func c08Keys(kind string) []string {
	if kind == "chunked" {
		return keyAlphabet(kind)
	}
	return []string{"ka", "kb", "k%dc", "kd%"}
}
