// Package fakemc is an observable, hostile fake memcached speaking the binary protocol
// (plus rend's gete/geteq extension). It is written from the protocol description and does
// not import rend's binprot package. All state of a Store is guarded by one mutex and every
// request is applied atomically together with its log entry.
package fakemc

import (
	"bufio"
	"encoding/binary"
	"fmt"
	"io"
	"net"
	"os"
	"sort"
	"sync"
	"time"
)

// Opcodes (memcached binary protocol).
const (
	OpGet      = 0x00
	OpSet      = 0x01
	OpAdd      = 0x02
	OpReplace  = 0x03
	OpDelete   = 0x04
	OpQuit     = 0x07
	OpGetQ     = 0x09
	OpNoop     = 0x0a
	OpVersion  = 0x0b
	OpGetK     = 0x0c
	OpGetKQ    = 0x0d
	OpAppend   = 0x0e
	OpPrepend  = 0x0f
	OpSetQ     = 0x11
	OpAddQ     = 0x12
	OpReplaceQ = 0x13
	OpDeleteQ  = 0x14
	OpQuitQ    = 0x17
	OpAppendQ  = 0x19
	OpPrependQ = 0x1a
	OpTouch    = 0x1c
	OpGat      = 0x1d
	OpGatQ     = 0x1e
	OpGetE     = 0x40
	OpGetEQ    = 0x41
)

// Status codes.
const (
	StOK        = 0x00
	StNotFound  = 0x01
	StExists    = 0x02
	StTooBig    = 0x03
	StInval     = 0x04
	StNotStored = 0x05
	StUnknown   = 0x81
	StNoMem     = 0x82
	StNotSupp   = 0x83
	StInternal  = 0x84
	StBusy      = 0x85
	StTemp      = 0x86
)

const thirtyDays = 60 * 60 * 24 * 30

// Entry is one stored item.
type Entry struct {
	Value    []byte
	Flags    uint32
	Deadline uint32 // absolute virtual unix time; 0 = never
	Writer   uint64 // sequence number of the request that last wrote the value
}

// Req is a logged request.
type Req struct {
	Seq     uint64
	Conn    int
	Op      byte
	Key     string
	ValLen  int
	Flags   uint32
	Exptime uint32
	Opaque  uint32
	Now     uint32
	ValHead []byte // first bytes (up to 40) of the value of a storage request
	Burst   int    // position of the request within a burst of pipelined requests (0 = first)
	Status  uint16 // status of the reply (also for quiet requests that produced none)
	Replied bool
	Faulted string
}

// FaultKind enumerates injected faults.
type FaultKind int

const (
	FaultNone FaultKind = iota
	// FaultStatus answers with an error status and a text body without applying the request.
	FaultStatus
	// FaultCloseBefore closes the connection without applying the request.
	FaultCloseBefore
	// FaultCloseAfter applies the request and closes before sending the reply.
	FaultCloseAfter
	// FaultCloseMid applies the request, sends the first Bytes bytes of the reply, closes.
	FaultCloseMid
	// FaultDelay delays the reply.
	FaultDelay
)

// Fault describes what to do with a matching request.
type Fault struct {
	Kind   FaultKind
	Status uint16
	Bytes  int
	Delay  time.Duration
}

func (f Fault) String() string {
	switch f.Kind {
	case FaultStatus:
		return fmt.Sprintf("status(0x%02x)", f.Status)
	case FaultCloseBefore:
		return "close-before"
	case FaultCloseAfter:
		return "close-after"
	case FaultCloseMid:
		return fmt.Sprintf("close-mid(%d)", f.Bytes)
	case FaultDelay:
		return fmt.Sprintf("delay(%v)", f.Delay)
	}
	return "none"
}

// GetEMode selects what the gete reply carries as exptime.
type GetEMode int

const (
	// GetERemaining: remaining lifetime in seconds (0 = never).
	GetERemaining GetEMode = iota
	// GetEAbsolute: absolute unix deadline (0 = never).
	GetEAbsolute
)

// Store is the state of one fake memcached.
type Store struct {
	Name string

	mu        sync.Mutex
	m         map[string]*Entry
	t0        uint32
	offset    uint32
	seq       uint64
	log       []Req
	logging   bool
	getEMode  GetEMode
	realClock bool

	// fault plan: requests are counted from the moment the plan is armed.
	faultAt  map[uint64]Fault // by 1-based index of request since arming
	faultFn  func(n uint64, r *Req) Fault
	armCount uint64

	// Gate, when set, is called (without the store lock) before each request is applied.
	gate func(conn int, r *Req)

	pending int // requests read but not yet answered (for idleness checks)

	connMu   sync.Mutex
	nextConn int
	open     map[int]io.Closer
	accepted int
	closed   int
}

// NewStore returns an empty store whose virtual clock starts at the current unix time.
func NewStore(name string) *Store {
	return &Store{
		Name:    name,
		m:       map[string]*Entry{},
		t0:      uint32(time.Now().Unix()),
		logging: true,
		open:    map[int]io.Closer{},
	}
}

// Reset clears entries, log, faults and restarts the virtual clock at the current time.
func (s *Store) Reset() {
	s.mu.Lock()
	defer s.mu.Unlock()
	s.m = map[string]*Entry{}
	s.log = nil
	s.faultAt = nil
	s.faultFn = nil
	s.armCount = 0
	s.offset = 0
	s.t0 = uint32(time.Now().Unix())
}

// ResetAt is Reset with an explicit clock origin (so that several stores share one clock).
func (s *Store) ResetAt(t0 uint32) {
	s.Reset()
	s.mu.Lock()
	s.t0 = t0
	s.mu.Unlock()
}

// SetGetEMode selects the gete exptime convention.
func (s *Store) SetGetEMode(m GetEMode) { s.mu.Lock(); s.getEMode = m; s.mu.Unlock() }

// SetLogging turns the request log on or off (large sweeps turn it off between probes).
func (s *Store) SetLogging(on bool) { s.mu.Lock(); s.logging = on; s.mu.Unlock() }

// SetGate installs the per-request gate.
func (s *Store) SetGate(g func(conn int, r *Req)) { s.mu.Lock(); s.gate = g; s.mu.Unlock() }

// Now returns the virtual time.
func (s *Store) Now() uint32 { s.mu.Lock(); defer s.mu.Unlock(); return s.t0 + s.offset }

// T0 returns the start of the virtual clock.
func (s *Store) T0() uint32 { s.mu.Lock(); defer s.mu.Unlock(); return s.t0 }

// Advance moves the virtual clock forward.
func (s *Store) Advance(d uint32) { s.mu.Lock(); s.offset += d; s.mu.Unlock() }

// SetOffset sets the virtual clock to t0+off.
func (s *Store) SetOffset(off uint32) { s.mu.Lock(); s.offset = off; s.mu.Unlock() }

func (s *Store) nowLocked() uint32 {
	if s.realClock {
		return uint32(time.Now().Unix()) + s.offset
	}
	return s.t0 + s.offset
}

// SetRealClock makes the store follow the real clock (plus the offset) instead of standing
// still at its origin: needed where the code under test derives absolute times from its own
// clock and real elapsed time matters.
func (s *Store) SetRealClock(on bool) { s.mu.Lock(); s.realClock = on; s.mu.Unlock() }

func (s *Store) liveLocked(k string) *Entry {
	e, ok := s.m[k]
	if !ok {
		return nil
	}
	if e.Deadline != 0 && e.Deadline <= s.nowLocked() {
		return nil
	}
	return e
}

// Snapshot returns a deep copy of all live entries.
func (s *Store) Snapshot() map[string]Entry {
	s.mu.Lock()
	defer s.mu.Unlock()
	out := make(map[string]Entry, len(s.m))
	for k := range s.m {
		if e := s.liveLocked(k); e != nil {
			c := *e
			c.Value = append([]byte(nil), e.Value...)
			out[k] = c
		}
	}
	return out
}

// SnapshotAll returns all entries including expired ones.
func (s *Store) SnapshotAll() map[string]Entry {
	s.mu.Lock()
	defer s.mu.Unlock()
	out := make(map[string]Entry, len(s.m))
	for k, e := range s.m {
		c := *e
		c.Value = append([]byte(nil), e.Value...)
		out[k] = c
	}
	return out
}

// Keys returns the sorted live keys.
func (s *Store) Keys() []string {
	snap := s.Snapshot()
	ks := make([]string, 0, len(snap))
	for k := range snap {
		ks = append(ks, k)
	}
	sort.Strings(ks)
	return ks
}

// Evict removes entries (as an LRU would).
func (s *Store) Evict(keys ...string) {
	s.mu.Lock()
	for _, k := range keys {
		delete(s.m, k)
	}
	s.mu.Unlock()
}

// EvictAll removes everything.
func (s *Store) EvictAll() { s.mu.Lock(); s.m = map[string]*Entry{}; s.mu.Unlock() }

// Put stores an entry directly (test set-up).
func (s *Store) Put(k string, v []byte, flags, deadline uint32) {
	s.mu.Lock()
	s.seq++
	s.m[k] = &Entry{Value: append([]byte(nil), v...), Flags: flags, Deadline: deadline, Writer: s.seq}
	s.mu.Unlock()
}

// Log returns a copy of the request log.
func (s *Store) Log() []Req {
	s.mu.Lock()
	defer s.mu.Unlock()
	return append([]Req(nil), s.log...)
}

// LogLen returns the number of logged requests.
func (s *Store) LogLen() int { s.mu.Lock(); defer s.mu.Unlock(); return len(s.log) }

// ResetLog clears the request log.
func (s *Store) ResetLog() { s.mu.Lock(); s.log = nil; s.mu.Unlock() }

// Seq returns the number of requests processed so far.
func (s *Store) Seq() uint64 { s.mu.Lock(); defer s.mu.Unlock(); return s.seq }

// Pending returns the number of requests read but not yet answered.
func (s *Store) Pending() int { s.mu.Lock(); defer s.mu.Unlock(); return s.pending }

// ArmFaults installs a fault plan keyed by the 1-based index of the request counted from now.
func (s *Store) ArmFaults(plan map[uint64]Fault) {
	s.mu.Lock()
	s.faultAt = plan
	s.faultFn = nil
	s.armCount = 0
	s.mu.Unlock()
}

// ArmFaultFn installs a fault function (n = 1-based index since arming).
func (s *Store) ArmFaultFn(fn func(n uint64, r *Req) Fault) {
	s.mu.Lock()
	s.faultFn = fn
	s.faultAt = nil
	s.armCount = 0
	s.mu.Unlock()
}

// ArmedCount is the number of requests seen since the plan was armed.
func (s *Store) ArmedCount() uint64 { s.mu.Lock(); defer s.mu.Unlock(); return s.armCount }

// DisarmFaults removes the plan.
func (s *Store) DisarmFaults() {
	s.mu.Lock()
	s.faultAt = nil
	s.faultFn = nil
	s.mu.Unlock()
}

func deadlineFor(exp, now uint32) uint32 {
	if exp == 0 {
		return 0
	}
	if exp <= thirtyDays {
		return now + exp
	}
	return exp
}

type frame struct {
	op      byte
	keyLen  uint16
	extLen  byte
	total   uint32
	opaque  uint32
	extras  []byte
	key     []byte
	value   []byte
	rawHead [24]byte
}

type reply struct {
	op     byte
	status uint16
	opaque uint32
	extras []byte
	key    []byte
	value  []byte
	quiet  bool // no reply must be sent
}

func (r *reply) bytes() []byte {
	total := len(r.extras) + len(r.key) + len(r.value)
	b := make([]byte, 24+total)
	b[0] = 0x81
	b[1] = r.op
	binary.BigEndian.PutUint16(b[2:4], uint16(len(r.key)))
	b[4] = byte(len(r.extras))
	binary.BigEndian.PutUint16(b[6:8], r.status)
	binary.BigEndian.PutUint32(b[8:12], uint32(total))
	binary.BigEndian.PutUint32(b[12:16], r.opaque)
	// a non-zero CAS makes sure nobody relies on it being zero
	binary.BigEndian.PutUint64(b[16:24], 0x0102030405060708)
	n := 24
	n += copy(b[n:], r.extras)
	n += copy(b[n:], r.key)
	copy(b[n:], r.value)
	return b
}

var statusText = map[uint16]string{
	StNotFound:  "Not found",
	StExists:    "Data exists for key.",
	StTooBig:    "Too large.",
	StInval:     "Invalid arguments",
	StNotStored: "Not stored.",
	StUnknown:   "Unknown command",
	StNoMem:     "Out of memory",
	StNotSupp:   "Not supported",
	StInternal:  "Internal error",
	StBusy:      "Busy",
	StTemp:      "Temporary failure",
}

func errReply(op byte, opaque uint32, st uint16) *reply {
	txt, ok := statusText[st]
	if !ok {
		txt = "Error"
	}
	return &reply{op: op, status: st, opaque: opaque, value: []byte(txt)}
}

func isQuietOp(op byte) bool {
	switch op {
	case OpGetQ, OpGetKQ, OpGatQ, OpGetEQ, OpSetQ, OpAddQ, OpReplaceQ, OpDeleteQ, OpAppendQ, OpPrependQ, OpQuitQ:
		return true
	}
	return false
}

// apply executes one request atomically; it returns the reply (nil = silent) and whether the
// connection must be closed afterwards.
func (s *Store) applyLocked(f *frame, rq *Req) (*reply, bool) {
	now := s.nowLocked()
	key := string(f.key)
	op := f.op
	switch op {
	case OpGet, OpGetQ, OpGetK, OpGetKQ, OpGetE, OpGetEQ:
		e := s.liveLocked(key)
		if e == nil {
			rq.Status = StNotFound
			if isQuietOp(op) {
				return nil, false
			}
			return errReply(op, f.opaque, StNotFound), false
		}
		r := &reply{op: op, opaque: f.opaque, value: append([]byte(nil), e.Value...)}
		ex := make([]byte, 4, 8)
		binary.BigEndian.PutUint32(ex, e.Flags)
		if op == OpGetE || op == OpGetEQ {
			var x uint32
			if e.Deadline != 0 {
				if s.getEMode == GetEAbsolute {
					x = e.Deadline
				} else {
					x = e.Deadline - now
				}
			}
			ex = ex[:8]
			binary.BigEndian.PutUint32(ex[4:], x)
		}
		r.extras = ex
		if op == OpGetK || op == OpGetKQ {
			r.key = append([]byte(nil), f.key...)
		}
		return r, false

	case OpGat, OpGatQ:
		if len(f.extras) != 4 {
			rq.Status = StInval
			return errReply(op, f.opaque, StInval), false
		}
		exp := binary.BigEndian.Uint32(f.extras)
		rq.Exptime = exp
		e := s.liveLocked(key)
		if e == nil {
			rq.Status = StNotFound
			if op == OpGatQ {
				return nil, false
			}
			return errReply(op, f.opaque, StNotFound), false
		}
		e.Deadline = deadlineFor(exp, now)
		ex := make([]byte, 4)
		binary.BigEndian.PutUint32(ex, e.Flags)
		return &reply{op: op, opaque: f.opaque, extras: ex, value: append([]byte(nil), e.Value...)}, false

	case OpTouch:
		if len(f.extras) != 4 {
			rq.Status = StInval
			return errReply(op, f.opaque, StInval), false
		}
		exp := binary.BigEndian.Uint32(f.extras)
		rq.Exptime = exp
		e := s.liveLocked(key)
		if e == nil {
			rq.Status = StNotFound
			return errReply(op, f.opaque, StNotFound), false
		}
		e.Deadline = deadlineFor(exp, now)
		ex := make([]byte, 4)
		binary.BigEndian.PutUint32(ex, e.Flags)
		// memcached's touch reply carries the flags as extras: exercises Discard paths.
		return &reply{op: op, opaque: f.opaque, extras: ex}, false

	case OpSet, OpSetQ, OpAdd, OpAddQ, OpReplace, OpReplaceQ:
		if len(f.extras) != 8 {
			rq.Status = StInval
			return errReply(op, f.opaque, StInval), false
		}
		flags := binary.BigEndian.Uint32(f.extras[0:4])
		exp := binary.BigEndian.Uint32(f.extras[4:8])
		rq.Flags, rq.Exptime, rq.ValLen = flags, exp, len(f.value)
		if n := len(f.value); n > 0 {
			if n > 40 {
				n = 40
			}
			rq.ValHead = append([]byte(nil), f.value[:n]...)
		}
		e := s.liveLocked(key)
		switch op {
		case OpAdd, OpAddQ:
			if e != nil {
				rq.Status = StExists
				return errReply(op, f.opaque, StExists), false
			}
		case OpReplace, OpReplaceQ:
			if e == nil {
				rq.Status = StNotFound
				return errReply(op, f.opaque, StNotFound), false
			}
		}
		s.m[key] = &Entry{Value: append([]byte(nil), f.value...), Flags: flags, Deadline: deadlineFor(exp, now), Writer: rq.Seq}
		if isQuietOp(op) {
			return nil, false
		}
		return &reply{op: op, opaque: f.opaque}, false

	case OpAppend, OpAppendQ, OpPrepend, OpPrependQ:
		rq.ValLen = len(f.value)
		e := s.liveLocked(key)
		if e == nil {
			rq.Status = StNotStored
			return errReply(op, f.opaque, StNotStored), false
		}
		if op == OpAppend || op == OpAppendQ {
			e.Value = append(append([]byte(nil), e.Value...), f.value...)
		} else {
			e.Value = append(append([]byte(nil), f.value...), e.Value...)
		}
		e.Writer = rq.Seq
		if isQuietOp(op) {
			return nil, false
		}
		return &reply{op: op, opaque: f.opaque}, false

	case OpDelete, OpDeleteQ:
		e := s.liveLocked(key)
		if e == nil {
			delete(s.m, key)
			rq.Status = StNotFound
			return errReply(op, f.opaque, StNotFound), false
		}
		delete(s.m, key)
		if op == OpDeleteQ {
			return nil, false
		}
		return &reply{op: op, opaque: f.opaque}, false

	case OpNoop:
		return &reply{op: op, opaque: f.opaque}, false
	case OpVersion:
		return &reply{op: op, opaque: f.opaque, value: []byte("1.6.0-fakemc")}, false
	case OpQuit:
		return &reply{op: op, opaque: f.opaque}, true
	case OpQuitQ:
		return nil, true
	}
	rq.Status = StUnknown
	return errReply(op, f.opaque, StUnknown), false
}

func readFrame(r *bufio.Reader) (*frame, error) {
	f := &frame{}
	if _, err := io.ReadFull(r, f.rawHead[:]); err != nil {
		return nil, err
	}
	h := f.rawHead[:]
	if h[0] != 0x80 {
		return nil, fmt.Errorf("fakemc: bad request magic 0x%02x", h[0])
	}
	f.op = h[1]
	f.keyLen = binary.BigEndian.Uint16(h[2:4])
	f.extLen = h[4]
	f.total = binary.BigEndian.Uint32(h[8:12])
	f.opaque = binary.BigEndian.Uint32(h[12:16])
	if uint32(f.keyLen)+uint32(f.extLen) > f.total {
		return nil, fmt.Errorf("fakemc: inconsistent lengths key=%d ext=%d total=%d", f.keyLen, f.extLen, f.total)
	}
	if f.total > 64<<20 {
		return nil, fmt.Errorf("fakemc: body too large %d", f.total)
	}
	body := make([]byte, f.total)
	if _, err := io.ReadFull(r, body); err != nil {
		return nil, err
	}
	f.extras = body[:f.extLen]
	f.key = body[f.extLen : uint32(f.extLen)+uint32(f.keyLen)]
	f.value = body[uint32(f.extLen)+uint32(f.keyLen):]
	return f, nil
}

// ServeConn serves one connection until EOF, error or an injected close. It returns when the
// connection is finished; the connection is always closed on return.
func (s *Store) ServeConn(c io.ReadWriteCloser) {
	s.serveConn(c, s.register(c))
}

func (s *Store) register(c io.ReadWriteCloser) int {
	s.connMu.Lock()
	defer s.connMu.Unlock()
	s.nextConn++
	id := s.nextConn
	s.open[id] = c
	s.accepted++
	return id
}

func (s *Store) serveConn(c io.ReadWriteCloser, id int) {
	defer func() {
		c.Close()
		s.connMu.Lock()
		if _, ok := s.open[id]; ok {
			delete(s.open, id)
			s.closed++
		}
		s.connMu.Unlock()
	}()

	r := bufio.NewReaderSize(c, 1<<16)
	w := bufio.NewWriterSize(c, 1<<16)
	burst := 0
	for {
		f, err := readFrame(r)
		if err != nil {
			if err != io.EOF && os.Getenv("FAKEMC_DEBUG") != "" {
				fmt.Fprintf(os.Stderr, "fakemc[%s] conn %d: %v\n", s.Name, id, err)
			}
			w.Flush()
			return
		}
		s.mu.Lock()
		s.pending++
		gate := s.gate
		s.mu.Unlock()

		rq := Req{Conn: id, Op: f.op, Key: string(f.key), Opaque: f.opaque, Burst: burst}
		if r.Buffered() > 0 {
			burst++
		} else {
			burst = 0
		}
		if gate != nil {
			gate(id, &rq)
		}

		s.mu.Lock()
		s.seq++
		rq.Seq = s.seq
		rq.Now = s.nowLocked()
		s.armCount++
		var flt Fault
		if s.faultAt != nil {
			flt = s.faultAt[s.armCount]
		} else if s.faultFn != nil {
			flt = s.faultFn(s.armCount, &rq)
		}
		var rep *reply
		var closeAfter bool
		switch flt.Kind {
		case FaultStatus:
			rq.Status = flt.Status
			rep = errReply(f.op, f.opaque, flt.Status)
			// "not found" / "not stored" must be truthful: the entry is evicted first (an
			// eviction is always legal for a cache), otherwise the backend would contradict
			// its own contents, which no memcached does.
			// "Key not found" always asserts absence; "not stored" asserts absence only as the
			// answer to append / prepend - for set / add / replace it is a bare refusal.
			if flt.Status == StNotFound || (flt.Status == StNotStored &&
				(f.op == OpAppend || f.op == OpAppendQ || f.op == OpPrepend || f.op == OpPrependQ)) {
				delete(s.m, string(f.key))
			}
		case FaultCloseBefore:
		default:
			rep, closeAfter = s.applyLocked(f, &rq)
		}
		rq.Replied = rep != nil
		if flt.Kind != FaultNone {
			rq.Faulted = flt.String()
		}
		if s.logging {
			s.log = append(s.log, rq)
		}
		s.mu.Unlock()

		done := func() {
			s.mu.Lock()
			s.pending--
			s.mu.Unlock()
		}

		switch flt.Kind {
		case FaultCloseBefore, FaultCloseAfter:
			w.Flush()
			done()
			return
		case FaultCloseMid:
			if rep != nil {
				b := rep.bytes()
				n := flt.Bytes
				if n > len(b) {
					n = len(b)
				}
				w.Write(b[:n])
			}
			w.Flush()
			done()
			return
		case FaultDelay:
			w.Flush()
			time.Sleep(flt.Delay)
		}
		if rep != nil {
			w.Write(rep.bytes())
		}
		if closeAfter {
			w.Flush()
			done()
			return
		}
		// memcached flushes the replies of a pipelined burst together
		if r.Buffered() == 0 {
			if err := w.Flush(); err != nil {
				done()
				return
			}
		}
		done()
	}
}

// OpenConns returns the number of currently open backend connections.
func (s *Store) OpenConns() int { s.connMu.Lock(); defer s.connMu.Unlock(); return len(s.open) }

// Accepted returns the number of connections ever accepted.
func (s *Store) Accepted() int { s.connMu.Lock(); defer s.connMu.Unlock(); return s.accepted }

// OpenConnIDs returns the ids of the open connections, sorted.
func (s *Store) OpenConnIDs() []int {
	s.connMu.Lock()
	defer s.connMu.Unlock()
	ids := make([]int, 0, len(s.open))
	for id := range s.open {
		ids = append(ids, id)
	}
	sort.Ints(ids)
	return ids
}

// CutAll closes every open connection from the server side.
func (s *Store) CutAll() int {
	s.connMu.Lock()
	cs := make([]io.Closer, 0, len(s.open))
	for _, c := range s.open {
		cs = append(cs, c)
	}
	s.connMu.Unlock()
	for _, c := range cs {
		c.Close()
	}
	return len(cs)
}

// CutConn closes one connection by id.
func (s *Store) CutConn(id int) bool {
	s.connMu.Lock()
	c, ok := s.open[id]
	s.connMu.Unlock()
	if ok {
		c.Close()
	}
	return ok
}

// Server is a listening fake memcached.
type Server struct {
	Store   *Store
	Network string
	Addr    string

	mu  sync.Mutex
	ln  net.Listener
	wg  sync.WaitGroup
	off bool
}

// Listen starts serving the store on network/addr ("unix", path) or ("tcp", "127.0.0.1:0").
func Listen(store *Store, network, addr string) (*Server, error) {
	srv := &Server{Store: store, Network: network, Addr: addr}
	if err := srv.StartListening(); err != nil {
		return nil, err
	}
	return srv, nil
}

// StartListening (re)opens the listener.
func (srv *Server) StartListening() error {
	srv.mu.Lock()
	defer srv.mu.Unlock()
	if srv.ln != nil {
		return nil
	}
	if srv.Network == "unix" {
		os.Remove(srv.Addr)
	}
	ln, err := net.Listen(srv.Network, srv.Addr)
	if err != nil {
		return err
	}
	if srv.Network == "tcp" {
		srv.Addr = ln.Addr().String()
	}
	srv.ln = ln
	go func() {
		for {
			c, err := ln.Accept()
			if err != nil {
				return
			}
			srv.wg.Add(1)
			go func() {
				defer srv.wg.Done()
				srv.Store.ServeConn(c)
			}()
		}
	}()
	return nil
}

// StopListening closes the listener (existing connections stay).
func (srv *Server) StopListening() {
	srv.mu.Lock()
	defer srv.mu.Unlock()
	if srv.ln != nil {
		srv.ln.Close()
		srv.ln = nil
		if srv.Network == "unix" {
			os.Remove(srv.Addr)
		}
	}
}

// Close stops listening and cuts all connections.
func (srv *Server) Close() {
	srv.StopListening()
	srv.Store.CutAll()
}

// Pipe returns a client side io.ReadWriteCloser connected to the store through an in-memory
// full-duplex pipe served by its own goroutine.
// PipeID is Pipe that also returns the connection id the store uses for the new connection.
func (s *Store) PipeID() (io.ReadWriteCloser, int) {
	a, b := BufferedPipe()
	id := s.register(b)
	go s.serveConn(b, id)
	return a, id
}

func (s *Store) Pipe() io.ReadWriteCloser {
	a, b := BufferedPipe()
	go s.ServeConn(b)
	return a
}
