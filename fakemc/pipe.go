package fakemc

import (
	"io"
	"sync"
)

// halfPipe is one direction of an in-memory connection with an unbounded buffer: writes never
// block (like a socket with a very large kernel buffer), reads block until data or close.
type halfPipe struct {
	mu     sync.Mutex
	cond   *sync.Cond
	buf    []byte
	closed bool
}

func newHalfPipe() *halfPipe {
	h := &halfPipe{}
	h.cond = sync.NewCond(&h.mu)
	return h
}

func (h *halfPipe) write(p []byte) (int, error) {
	h.mu.Lock()
	defer h.mu.Unlock()
	if h.closed {
		return 0, io.ErrClosedPipe
	}
	h.buf = append(h.buf, p...)
	h.cond.Broadcast()
	return len(p), nil
}

func (h *halfPipe) read(p []byte) (int, error) {
	h.mu.Lock()
	defer h.mu.Unlock()
	for len(h.buf) == 0 && !h.closed {
		h.cond.Wait()
	}
	if len(h.buf) == 0 {
		return 0, io.EOF
	}
	n := copy(p, h.buf)
	h.buf = h.buf[n:]
	if len(h.buf) == 0 {
		h.buf = nil
	}
	return n, nil
}

func (h *halfPipe) close() {
	h.mu.Lock()
	h.closed = true
	h.cond.Broadcast()
	h.mu.Unlock()
}

// PipeEnd is one end of a buffered duplex pipe.
type PipeEnd struct {
	in, out *halfPipe
	once    sync.Once
}

func (e *PipeEnd) Read(p []byte) (int, error)  { return e.in.read(p) }
func (e *PipeEnd) Write(p []byte) (int, error) { return e.out.write(p) }

// Close closes both directions: the peer reads EOF after draining, and its writes fail.
func (e *PipeEnd) Close() error {
	e.once.Do(func() {
		e.out.close()
		e.in.close()
	})
	return nil
}

// BufferedPipe returns two connected ends.
func BufferedPipe() (*PipeEnd, *PipeEnd) {
	a2b, b2a := newHalfPipe(), newHalfPipe()
	return &PipeEnd{in: b2a, out: a2b}, &PipeEnd{in: a2b, out: b2a}
}
